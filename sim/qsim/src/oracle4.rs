//! C05 (reduced claim, see DESIGN 3.5): wire-conformance monitor.  Everything the system
//! itself emits, and every mutation the fault injector makes of it, is parsed by the
//! independent RFC 9000 parser (wire.rs) AND by the real s2n-quic-core decoders; the two must
//! agree, the real decoders must never panic, integers must be in shortest form, announced
//! sizes must equal occupied sizes and the visible header fields must follow section 17.

use crate::{
    kernel::Violation,
    obs::Space,
    oracle::View,
    plan::Role,
    wire::{self, Frame},
};
use s2n_codec::DecoderBufferMut;
use s2n_quic_core::frame::{ack::AckRanges as _, FrameMut};

fn viol(oracle: &str, sig: &str, detail: String) -> Violation {
    Violation { property: "C05".into(), oracle: oracle.into(), detail, sig: sig.into() }
}

/// canonical text of a frame sequence as decoded by the REAL decoder
pub fn real_decode(payload: &[u8]) -> Result<Vec<String>, String> {
    let mut buf = payload.to_vec();
    let mut b = DecoderBufferMut::new(&mut buf);
    let mut out = vec![];
    if b.is_empty() {
        return Err("empty".into());
    }
    while !b.is_empty() {
        let (frame, rest) = b.decode::<FrameMut>().map_err(|e| format!("{e}"))?;
        use s2n_quic_core::frame::Frame as F;
        let s = match &frame {
            F::Padding(p) => format!("PADDING {}", p.length),
            F::Ping(_) => "PING".to_string(),
            F::Ack(a) => {
                let ranges: Vec<(u64, u64)> = a.ack_ranges.ack_ranges().map(|r| (r.start().as_u64(), r.end().as_u64())).collect();
                format!(
                    "ACK {} {:?} {:?}",
                    a.ack_delay.as_u64(),
                    ranges,
                    a.ecn_counts.map(|e| (e.ect_0_count.as_u64(), e.ect_1_count.as_u64(), e.ce_count.as_u64()))
                )
            }
            F::ResetStream(f) => format!("RESET_STREAM {} {} {}", f.stream_id, f.application_error_code, f.final_size),
            F::StopSending(f) => format!("STOP_SENDING {} {}", f.stream_id, f.application_error_code),
            F::Crypto(f) => format!("CRYPTO {} {} {:016x}", f.offset, f.data.len(), crate::kernel::hash_bytes(f.data.as_less_safe_slice())),
            F::NewToken(f) => format!("NEW_TOKEN {}", f.token.len()),
            F::Stream(f) => format!("STREAM {} {} {} {} {:016x}", f.stream_id, f.offset, f.data.len(), f.is_fin, crate::kernel::hash_bytes(f.data.as_less_safe_slice())),
            F::MaxData(f) => format!("MAX_DATA {}", f.maximum_data),
            F::MaxStreamData(f) => format!("MAX_STREAM_DATA {} {}", f.stream_id, f.maximum_stream_data),
            F::MaxStreams(f) => format!("MAX_STREAMS {} {}", f.stream_type.is_bidirectional(), f.maximum_streams),
            F::DataBlocked(f) => format!("DATA_BLOCKED {}", f.data_limit),
            F::StreamDataBlocked(f) => format!("STREAM_DATA_BLOCKED {} {}", f.stream_id, f.stream_data_limit),
            F::StreamsBlocked(f) => format!("STREAMS_BLOCKED {} {}", f.stream_type.is_bidirectional(), f.stream_limit),
            F::NewConnectionId(f) => format!("NEW_CONNECTION_ID {} {} {:?} {:?}", f.sequence_number, f.retire_prior_to, f.connection_id, f.stateless_reset_token),
            F::RetireConnectionId(f) => format!("RETIRE_CONNECTION_ID {}", f.sequence_number),
            F::PathChallenge(f) => format!("PATH_CHALLENGE {:?}", f.data),
            F::PathResponse(f) => format!("PATH_RESPONSE {:?}", f.data),
            F::ConnectionClose(f) => format!("CONNECTION_CLOSE {} {:?} {:?}", f.error_code, f.frame_type.map(|x| x.as_u64()), f.reason.unwrap_or(&[])),
            F::HandshakeDone(_) => "HANDSHAKE_DONE".to_string(),
            F::Datagram(f) => format!("DATAGRAM {}", f.data.len()),
            F::DcStatelessResetTokens(_) => "EXT dc".to_string(),
            F::MtuProbingComplete(_) => "EXT mtu".to_string(),
        };
        out.push(s);
        b = rest;
    }
    Ok(out)
}

/// canonical text of the same payload as parsed by the reference parser
pub fn ref_decode(payload: &[u8]) -> Result<(Vec<String>, wire::ParseStats), String> {
    let (frames, stats) = wire::parse_frames(payload).map_err(|e| e.0)?;
    let mut out = vec![];
    for f in &frames {
        out.push(match f {
            Frame::Padding { len } => format!("PADDING {len}"),
            Frame::Ping => "PING".into(),
            Frame::Ack { delay, ranges, ecn, .. } => format!("ACK {delay} {ranges:?} {ecn:?}"),
            Frame::ResetStream { id, code, final_size } => format!("RESET_STREAM {id} {code} {final_size}"),
            Frame::StopSending { id, code } => format!("STOP_SENDING {id} {code}"),
            Frame::Crypto { off, len, data_at } => format!("CRYPTO {off} {len} {:016x}", crate::kernel::hash_bytes(&payload[*data_at..*data_at + *len])),
            Frame::NewToken { len } => format!("NEW_TOKEN {len}"),
            Frame::Stream { id, off, len, fin, data_at, .. } => format!("STREAM {id} {off} {len} {fin} {:016x}", crate::kernel::hash_bytes(&payload[*data_at..*data_at + *len])),
            Frame::MaxData { max } => format!("MAX_DATA {max}"),
            Frame::MaxStreamData { id, max } => format!("MAX_STREAM_DATA {id} {max}"),
            Frame::MaxStreams { bidi, max } => format!("MAX_STREAMS {bidi} {max}"),
            Frame::DataBlocked { limit } => format!("DATA_BLOCKED {limit}"),
            Frame::StreamDataBlocked { id, limit } => format!("STREAM_DATA_BLOCKED {id} {limit}"),
            Frame::StreamsBlocked { bidi, limit } => format!("STREAMS_BLOCKED {bidi} {limit}"),
            Frame::NewConnectionId { seq, retire_prior_to, cid, token } => format!("NEW_CONNECTION_ID {seq} {retire_prior_to} {:?} {:?}", cid.as_slice(), token),
            Frame::RetireConnectionId { seq } => format!("RETIRE_CONNECTION_ID {seq}"),
            Frame::PathChallenge { data } => format!("PATH_CHALLENGE {data:?}"),
            Frame::PathResponse { data } => format!("PATH_RESPONSE {data:?}"),
            Frame::ConnectionClose { code, frame_type, reason, .. } => format!("CONNECTION_CLOSE {code} {frame_type:?} {:?}", reason.as_slice()),
            Frame::HandshakeDone => "HANDSHAKE_DONE".into(),
            Frame::Datagram { len } => format!("DATAGRAM {len}"),
            Frame::Extension { ty, .. } => if *ty == 0xdc0000 { "EXT dc".into() } else { "EXT mtu".into() },
        });
    }
    Ok((out, stats))
}

pub fn c05(v: &View) -> Vec<Violation> {
    let mut out = vec![];
    let o = v.out;
    let mut flagged = std::collections::BTreeSet::new();
    // 1. agreement on every cleartext payload (sent and processed, incl. byzantine rewrites)
    for (dir, list) in [("tx", &o.obs.tx), ("rx", &o.obs.rx)] {
        for p in list.iter() {
            let real = real_decode(&p.payload);
            let reference = ref_decode(&p.payload);
            match (&real, &reference) {
                (Ok(a), Ok((b, stats))) => {
                    // merge padding runs of the real decoder (it reports each run the same way)
                    if a != b && flagged.insert("frames_differ") {
                        let i = a.iter().zip(b.iter()).position(|(x, y)| x != y).unwrap_or(a.len().min(b.len()));
                        out.push(viol(
                            "c05.frame_decode_disagreement",
                            "frames_differ",
                            format!("endpoint {} {dir} {:?} pn {}: decoders disagree at frame {i}: real {:?} vs reference {:?}", p.ep, p.space, p.pn, a.get(i), b.get(i)),
                        ));
                    }
                    if dir == "tx" && p.byz.is_none() && stats.non_minimal > 0 && flagged.insert("non_minimal") {
                        out.push(viol(
                            "c05.varint_not_shortest_form",
                            "non_minimal",
                            format!("endpoint {} tx {:?} pn {}: {} variable-length integers not in shortest form", p.ep, p.space, p.pn, stats.non_minimal),
                        ));
                    }
                }
                (Ok(a), Err(e)) => {
                    // the reference parser is stricter in a few places where RFC 9000 demands an
                    // error that s2n-quic raises one layer up (frame handler instead of decoder)
                    let handler_level = e.contains("retire_prior_to") || e.contains("MAX_STREAMS") || e.contains("STREAMS_BLOCKED") || e.contains("offset overflow") || e.contains("empty NEW_TOKEN") || e.contains("NEW_CONNECTION_ID length");
                    if !handler_level && flagged.insert("real_accepts") {
                        out.push(viol(
                            "c05.real_decoder_accepts_malformed",
                            "real_accepts",
                            format!("endpoint {} {dir} {:?} pn {}: reference parser rejects ({e}) what the real decoder accepts ({} frames)", p.ep, p.space, p.pn, a.len()),
                        ));
                    }
                }
                (Err(e), Ok((b, _))) => {
                    if flagged.insert("real_rejects") {
                        out.push(viol(
                            "c05.real_decoder_rejects_wellformed",
                            "real_rejects",
                            format!("endpoint {} {dir} {:?} pn {}: real decoder rejects ({e}) a payload the reference parser accepts as {:?}", p.ep, p.space, p.pn, b.iter().take(4).collect::<Vec<_>>()),
                        ));
                    }
                }
                (Err(_), Err(_)) => {}
            }
        }
    }
    // 2. visible header fields and sizes of every datagram the endpoints emitted
    for d in &o.obs.tx_dgrams {
        let peer_cid_len = if d.ep == 0 { o.plan.cfg.client.cid_len } else { o.plan.cfg.server.cid_len } as usize;
        match wire::split_datagram(&d.bytes, peer_cid_len) {
            Err(e) => {
                if flagged.insert("dgram_parse") {
                    out.push(viol("c05.datagram_header_malformed", "dgram_parse", format!("endpoint {} datagram of {} bytes at {} us: {e}", d.ep, d.bytes.len(), d.t_ns / 1000)));
                }
            }
            Ok(pkts) => {
                let total: usize = pkts.iter().map(|p| p.len).sum();
                if total != d.bytes.len() && flagged.insert("dgram_len") {
                    out.push(viol("c05.datagram_length_mismatch", "dgram_len", format!("endpoint {}: packets cover {total} of {} datagram bytes", d.ep, d.bytes.len())));
                }
                for p in &pkts {
                    if !p.fixed_bit && flagged.insert("fixed_bit") {
                        out.push(viol("c05.fixed_bit_clear", "fixed_bit", format!("endpoint {}: {:?} packet with fixed bit 0", d.ep, p.kind)));
                    }
                    if !matches!(p.kind, wire::PacketKind::Short | wire::PacketKind::VersionNegotiation) && p.version != 1 && flagged.insert("version") {
                        out.push(viol("c05.unexpected_version", "version", format!("endpoint {}: long header with version {:#x}", d.ep, p.version)));
                    }
                    // 17.2.2: a server's Initial packets carry a zero-length token
                    if p.kind == wire::PacketKind::Initial && d.ep == 0 && p.token_len != 0 && flagged.insert("server_token") {
                        out.push(viol("c05.server_initial_with_token", "server_token", format!("server Initial packet with token length {}", p.token_len)));
                    }
                }
                // 12.2: coalesced packets share the destination connection id
                if pkts.len() > 1 {
                    let first = &pkts[0].dcid;
                    if pkts.iter().any(|p| &p.dcid != first) && flagged.insert("coalesced_dcid") {
                        out.push(viol("c05.coalesced_dcid_differs", "coalesced_dcid", format!("endpoint {}: coalesced packets with different destination connection ids", d.ep)));
                    }
                }
            }
        }
    }
    // 3. transport parameter blocks (section 18): reference parser vs real decoder, shortest form
    for (role, nonce, bytes) in &o.tls.tp_sent {
        let rewritten = match role {
            Role::Client => o.plan.cfg.client.tp_rule.is_some(),
            Role::Server => o.plan.cfg.server.tp_rule.is_some(),
        };
        let reference = wire::parse_tp_block(bytes);
        let real_ok = {
            use s2n_codec::DecoderBuffer;
            use s2n_quic_core::transport::parameters::{ClientTransportParameters, ServerTransportParameters};
            let b = DecoderBuffer::new(bytes);
            match role {
                Role::Client => b.decode::<ClientTransportParameters>().map(|_| ()).map_err(|e| format!("{e}")),
                Role::Server => b.decode::<ServerTransportParameters>().map(|_| ()).map_err(|e| format!("{e}")),
            }
        };
        match (&reference, rewritten) {
            (Ok((entries, stats)), false) => {
                if stats.non_minimal > 0 && flagged.insert("tp_non_minimal") {
                    out.push(viol("c05.tp_varint_not_shortest_form", "tp_non_minimal", format!("{role:?} transport parameters (session {nonce}) contain {} non-minimal integers", stats.non_minimal)));
                }
                let verdict = wire::tp_verdict(entries, *role == Role::Client);
                if let (Err(e), Ok(())) = (&verdict, &real_ok) {
                    let _ = e;
                }
                if verdict.is_ok() != real_ok.is_ok() && flagged.insert("tp_disagree") {
                    out.push(viol("c05.tp_decode_disagreement", "tp_disagree", format!("{role:?} own transport parameters: reference verdict {:?}, real decoder {:?}", verdict.as_ref().map(|_| ()), real_ok)));
                }
            }
            (Err(e), false) => {
                if flagged.insert("tp_parse") {
                    out.push(viol("c05.tp_block_malformed", "tp_parse", format!("{role:?} emitted a transport parameter block the reference parser rejects: {e}")));
                }
            }
            (Ok((entries, _)), true) => {
                // byzantine (rewritten) block: only the one verdict both RFC 9000 7.4 and the
                // decoder's own contract fix independently of the values - a parameter this
                // implementation knows (ids 0x00..=0x10) that occurs twice is never a value
                let mut ids: Vec<u64> = entries.iter().map(|e| e.id).filter(|id| *id <= 0x10).collect();
                ids.sort_unstable();
                let dup = ids.windows(2).find(|w| w[0] == w[1]).map(|w| w[0]);
                if let (Some(id), Ok(())) = (dup, &real_ok) {
                    if flagged.insert("tp_dup_accepted") {
                        out.push(viol("c05.tp_decode_disagreement", "tp_dup_accepted", format!("{role:?} block (rewritten) repeats parameter {id:#x}: the reference parser rejects it, the real decoder returns a value")));
                    }
                }
            }
            _ => {}
        }
    }
    // 4. totality: no panic inside a decoder
    if let Some(p) = &o.panic {
        if p.contains("s2n-codec") || p.contains("s2n_codec") || p.contains("/packet/") || p.contains("/frame/") || p.contains("varint") || p.contains("transport/parameters") {
            let first = p.lines().next().unwrap_or("");
            out.push(viol("c05.decoder_panic", &format!("panic:{}", first.chars().take(80).collect::<String>()), format!("panic inside a codec: {}", p.chars().take(1200).collect::<String>())));
        }
    }
    let _ = Space::App;
    out
}
