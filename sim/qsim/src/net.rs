//! SimNet: the only transport the endpoints see.  Implements the testing IO provider's
//! `Network` trait; every datagram's fate is a pure function of the plan.

use crate::{
    kernel::{hash_bytes, hashn},
    plan::{Action, Dir, Fault, Plan, Role, When},
};
use s2n_quic::provider::io::testing::{
    self as io,
    network::{Buffers, Network, Packet},
};
use s2n_quic_core::inet::{ExplicitCongestionNotification, SocketAddress};
use std::{
    collections::BTreeMap,
    sync::{Arc, Mutex},
    time::Duration,
};

#[derive(Clone, Debug)]
pub struct Host {
    pub addr: SocketAddress,
    pub role: Role,
    /// client index (0 for the server); attacker hosts have role Client and idx u32::MAX
    pub idx: u32,
}

#[derive(Clone, Debug, PartialEq, Eq)]
pub enum Label {
    Genuine,
    Mutated,
    Replay,
    Injected,
}

#[derive(Clone, Debug)]
pub struct Delivery {
    pub t_us: u64,
    pub len: usize,
    pub label: Label,
    pub from: SocketAddress,
    pub hash: u64,
    pub ce: bool,
}

#[derive(Clone, Debug)]
pub struct NetRec {
    pub t_send_ns: u64,
    pub dir: Dir,
    pub ordinal: u64,
    pub src: SocketAddress,
    pub dst: SocketAddress,
    pub len: usize,
    pub hash: u64,
    pub first_byte: u8,
    /// empty = dropped
    pub deliveries: Vec<Delivery>,
    pub drop_reason: Option<&'static str>,
    /// full bytes kept only when requested by the scenario (C11/C12/C13 need headers)
    pub bytes: Option<Vec<u8>>,
}

#[derive(Default, Debug)]
pub struct NetState {
    pub hosts: Vec<Host>,
    pub log: Vec<NetRec>,
    pub fired: BTreeMap<&'static str, u64>,
    /// delivered-to-rx-queue events: (t_ns, dst, src, len, label)
    pub delivered: Vec<(u64, SocketAddress, SocketAddress, usize, Label)>,
    pub keep_bytes: bool,
    pub next_seq: u64,
    /// additional one-way delay of the path currently used by client idx (changes on rebinding)
    pub extra_delay_us: BTreeMap<u32, u64>,
    /// former addresses of rebound clients; with `keep_old_mappings` the NAT still forwards
    /// datagrams sent to them (to the client's current binding)
    pub aliases: Vec<(SocketAddress, u32)>,
    pub keep_old_mappings: bool,
}

impl NetState {
    pub fn fire(&mut self, k: &'static str) {
        *self.fired.entry(k).or_insert(0) += 1;
    }
}

pub type SharedNet = Arc<Mutex<NetState>>;

pub struct SimNet {
    pub shared: SharedNet,
    faults: Vec<Fault>,
    delay_key: u64,
    base_delay_us: u64,
    jitter_us: u64,
    path_mtu: u16,
    net_batch: u32,
    faults_end_us: Option<u64>,
    ord: [u64; 2],
    prev: [Option<Vec<u8>>; 2],
    stall_until_ns: BTreeMap<SocketAddress, u64>,
}

fn dir_idx(d: Dir) -> usize {
    match d {
        Dir::C2S => 0,
        Dir::S2C => 1,
    }
}

impl SimNet {
    pub fn new(plan: &Plan, shared: SharedNet) -> Self {
        SimNet {
            shared,
            faults: plan.faults.clone(),
            delay_key: plan.delay_key,
            base_delay_us: plan.cfg.base_delay_us,
            jitter_us: plan.cfg.jitter_us,
            path_mtu: plan.cfg.path_mtu,
            net_batch: plan.cfg.net_batch,
            faults_end_us: plan.faults_end_us,
            ord: [0; 2],
            prev: [None, None],
            stall_until_ns: BTreeMap::new(),
        }
    }

    fn actions_for(&self, dir: Dir, n: u64, now_us: u64) -> Vec<Action> {
        if let Some(end) = self.faults_end_us {
            if now_us >= end {
                return vec![];
            }
        }
        let mut out = vec![];
        for f in &self.faults {
            let hit = match &f.when {
                When::Nth { dir: d, n: k } => *d == dir && *k == n,
                When::Window { dir: d, from_us, to_us, permille, key } => {
                    d.map_or(true, |d| d == dir)
                        && now_us >= *from_us
                        && now_us < *to_us
                        && (hashn(*key, &[dir_idx(dir) as u64, n]) % 1000) < *permille as u64
                }
            };
            if hit {
                out.push(f.action.clone());
            }
        }
        out
    }
}

fn now_ns() -> u64 {
    let t = io::now();
    unsafe { t.as_duration().as_nanos() as u64 }
}

fn schedule(buffers: &Buffers, shared: &SharedNet, mut packet: Packet, at_ns: u64, label: Label) {
    // reverse the addresses so dst/src are correct for the receiver
    packet.switch();
    let buffers = buffers.clone();
    let shared = shared.clone();
    let now = now_ns();
    io::spawn(async move {
        if at_ns > now {
            io::time::delay(Duration::from_nanos(at_ns - now)).await;
        }
        let mut dst: SocketAddress = packet.path.local_address.0;
        let src: SocketAddress = packet.path.remote_address.0;
        let len = packet.payload.len();
        {
            let mut s = shared.lock().unwrap();
            if s.keep_old_mappings {
                if let Some((_, idx)) = s.aliases.iter().find(|(a, _)| *a == dst).copied() {
                    if let Some(h) = s.hosts.iter().find(|h| h.role == Role::Client && h.idx == idx) {
                        dst = h.addr;
                        packet.path.local_address.0 = dst;
                    }
                }
            }
            let t = now_ns();
            s.delivered.push((t, dst, src, len, label));
        }
        buffers.rx(dst, |queue| queue.enqueue(packet));
    });
}

impl Network for SimNet {
    fn execute(&mut self, buffers: &Buffers) -> usize {
        let hosts: Vec<Host> = self.shared.lock().unwrap().hosts.clone();
        let now = now_ns();
        let now_us = now / 1000;
        let mut count = 0usize;

        for host in &hosts {
            let mut packets: Vec<Packet> = vec![];
            let batch = self.net_batch as usize;
            buffers.tx(host.addr, |q| {
                if batch == 0 {
                    packets.extend(q.drain());
                } else {
                    packets.extend(q.dequeue(batch));
                }
            });
            for packet in packets {
                count += 1;
                let dir = if host.role == Role::Server { Dir::S2C } else { Dir::C2S };
                let di = dir_idx(dir);
                let n = self.ord[di];
                self.ord[di] += 1;
                let src: SocketAddress = packet.path.local_address.0;
                let dst: SocketAddress = packet.path.remote_address.0;
                let len = packet.payload.len();
                let hash = hash_bytes(&packet.payload);
                let mut rec = NetRec {
                    t_send_ns: now,
                    dir,
                    ordinal: n,
                    src,
                    dst,
                    len,
                    hash,
                    first_byte: packet.payload.first().copied().unwrap_or(0),
                    deliveries: vec![],
                    drop_reason: None,
                    bytes: None,
                };
                let keep = self.shared.lock().unwrap().keep_bytes;
                if keep {
                    rec.bytes = Some(packet.payload.clone());
                }

                let is_attacker = host.idx == u32::MAX;
                let actions =
                    if is_attacker { vec![] } else { self.actions_for(dir, n, now_us) };
                let jitter = if self.jitter_us > 0 {
                    hashn(self.delay_key, &[di as u64, n]) % (self.jitter_us + 1)
                } else {
                    0
                };
                let mut base_ns = (self.base_delay_us + jitter) * 1000;
                {
                    // per-path latency: the path is identified by the client's current binding
                    let sh = self.shared.lock().unwrap();
                    let cidx = if host.role == Role::Client && !is_attacker {
                        Some(host.idx)
                    } else {
                        sh.hosts.iter().find(|h| h.role == Role::Client && h.idx != u32::MAX && h.addr == dst).map(|h| h.idx)
                    };
                    if let Some(x) = cidx.and_then(|c| sh.extra_delay_us.get(&c)) {
                        base_ns += x * 1000;
                    }
                }

                // (extra_delay_ns, payload, ce, label, from-override)
                let mut outs: Vec<(u64, Vec<u8>, bool, Label, Option<SocketAddress>)> = vec![];
                let mut deliver_original = true;
                let mut ce = false;

                if !is_attacker && len > self.path_mtu as usize {
                    deliver_original = false;
                    rec.drop_reason = Some("mtu");
                    self.shared.lock().unwrap().fire("mtu_drop");
                }

                if deliver_original {
                    for a in &actions {
                        let mut sh = self.shared.lock().unwrap();
                        match a {
                            Action::Drop => {
                                deliver_original = false;
                                rec.drop_reason = Some("drop");
                                sh.fire("drop");
                            }
                            Action::Dup { k, extra_us } => {
                                for i in 0..*k as u64 {
                                    outs.push((
                                        (i + 1) * extra_us * 1000,
                                        packet.payload.clone(),
                                        false,
                                        Label::Replay,
                                        None,
                                    ));
                                }
                                sh.fire("dup");
                            }
                            Action::Delay { us } => {
                                base_ns += us * 1000;
                                sh.fire("reorder");
                            }
                            Action::Corrupt { bits, also_original } => {
                                let mut p = packet.payload.clone();
                                if !p.is_empty() {
                                    for b in bits {
                                        let bit = (*b as usize) % (p.len() * 8);
                                        p[bit / 8] ^= 1 << (bit % 8);
                                    }
                                }
                                if p != packet.payload {
                                    outs.push((0, p, false, Label::Mutated, None));
                                    if !*also_original {
                                        deliver_original = false;
                                        rec.drop_reason = Some("corrupt");
                                    }
                                    sh.fire("corrupt");
                                }
                            }
                            Action::Truncate { n, from_end, also_original } => {
                                let mut p = packet.payload.clone();
                                let keep = if *from_end {
                                    p.len().saturating_sub(*n as usize)
                                } else {
                                    (*n as usize).min(p.len())
                                };
                                if keep < p.len() {
                                    p.truncate(keep);
                                    outs.push((0, p, false, Label::Mutated, None));
                                    if !*also_original {
                                        deliver_original = false;
                                        rec.drop_reason = Some("truncate");
                                    }
                                    sh.fire("truncate");
                                }
                            }
                            Action::Extend { n, also_original } => {
                                let mut p = packet.payload.clone();
                                for i in 0..*n as u64 {
                                    p.push(hashn(self.delay_key ^ 0xe7, &[hash, i]) as u8);
                                }
                                outs.push((0, p, false, Label::Mutated, None));
                                if !*also_original {
                                    deliver_original = false;
                                    rec.drop_reason = Some("extend");
                                }
                                sh.fire("extend");
                            }
                            Action::Splice { at, also_original } => {
                                if let Some(prev) = &self.prev[di] {
                                    let cut = (*at as usize).min(packet.payload.len());
                                    let mut p = packet.payload[..cut].to_vec();
                                    if prev.len() > cut {
                                        p.extend_from_slice(&prev[cut..]);
                                    }
                                    if p != packet.payload && !p.is_empty() {
                                        outs.push((0, p, false, Label::Mutated, None));
                                        if !*also_original {
                                            deliver_original = false;
                                            rec.drop_reason = Some("splice");
                                        }
                                        sh.fire("splice");
                                    }
                                }
                            }
                            Action::Replay { after_us, from_other_addr } => {
                                let from = if *from_other_addr {
                                    // a fixed third-party address
                                    let a: std::net::SocketAddr = "9.9.9.9:9999".parse().unwrap();
                                    Some(SocketAddress::from(a))
                                } else {
                                    None
                                };
                                outs.push((
                                    after_us * 1000,
                                    packet.payload.clone(),
                                    false,
                                    Label::Replay,
                                    from,
                                ));
                                sh.fire("replay");
                            }
                            Action::EcnCe => {
                                ce = true;
                                sh.fire("ecn_ce");
                            }
                            Action::SpoofedCorrupt { bits } => {
                                let mut p = packet.payload.clone();
                                if !p.is_empty() {
                                    for b in bits {
                                        let bit = (*b as usize) % (p.len() * 8);
                                        p[bit / 8] ^= 1 << (bit % 8);
                                    }
                                }
                                let a: std::net::SocketAddr =
                                    format!("9.9.{}.{}:{}", n % 200, 1 + n % 250, 7000 + n % 1000).parse().unwrap();
                                outs.push((0, p, false, Label::Mutated, Some(SocketAddress::from(a))));
                                sh.fire("spoofed_corrupt");
                            }
                            Action::Stall { us } => {
                                let until = now + us * 1000;
                                let e = self.stall_until_ns.entry(dst).or_insert(0);
                                *e = (*e).max(until);
                                sh.fire("stall");
                            }
                        }
                    }
                }

                self.prev[di] = Some(packet.payload.clone());

                let stall = self.stall_until_ns.get(&dst).copied().unwrap_or(0);
                let mut emit = |extra: u64,
                                payload: Vec<u8>,
                                ce: bool,
                                label: Label,
                                from: Option<SocketAddress>,
                                rec: &mut NetRec| {
                    let mut at = now + base_ns + extra;
                    if at < stall {
                        at = stall;
                    }
                    let mut p = Packet {
                        path: packet.path,
                        ecn: if ce {
                            ExplicitCongestionNotification::Ce
                        } else {
                            packet.ecn
                        },
                        payload,
                    };
                    if let Some(f) = from {
                        p.path.local_address = f.into();
                    }
                    rec.deliveries.push(Delivery {
                        t_us: at / 1000,
                        len: p.payload.len(),
                        label: label.clone(),
                        from: p.path.local_address.0,
                        hash: hash_bytes(&p.payload),
                        ce,
                    });
                    schedule(buffers, &self.shared, p, at, label);
                };

                if deliver_original {
                    let label = if is_attacker { Label::Injected } else { Label::Genuine };
                    emit(0, packet.payload.clone(), ce, label, None, &mut rec);
                }
                for (extra, payload, ce2, label, from) in outs {
                    emit(extra, payload, ce2, label, from, &mut rec);
                }

                self.shared.lock().unwrap().log.push(rec);
            }
        }
        count
    }
}
