//! `s2n_quic_core::sync::atomic_waker::pair()` — two attached handles.
//!  * `waker.close`: A parks in `poll_close`, B wakes a few times and drops -> A is released and
//!    sees `is_open() == false`.
//!  * `waker.pingpong`: register / re-check / park on one side, publish + `wake()` on the other,
//!    alternating for 1-3 rounds.  A lost wake-up leaves a thread parked forever (deadlock).

use super::{ev, fail, finish, join, rt, Log, Outcome, Scenario};
use s2n_quic_core::sync::atomic_waker::{self, Handle};
use std::{
    future::poll_fn,
    sync::{
        atomic::{AtomicU32, Ordering},
        Arc,
    },
    task::Poll,
};

pub fn scenarios() -> Vec<Scenario> {
    vec![Scenario::new("waker.close", "C17", close), Scenario::new("waker.pingpong", "C17", pingpong)]
}

fn close() -> Outcome {
    let sig = "waker.close";
    let wakes = rt::range(0, 2);
    let a_registers_first = rt::coin();
    let clock = Arc::new(rt::Clock::new());
    let (mut a, b) = atomic_waker::pair();
    let ta = {
        let mut log = Log::new(0, &clock);
        rt::spawn(move || {
            if a_registers_first {
                rt::pause();
            }
            rt::block_on(poll_fn(|cx| match a.poll_close(cx) {
                Poll::Ready(()) => Poll::Ready(()),
                Poll::Pending => {
                    log.ev(ev::PEND_C, 0);
                    Poll::Pending
                }
            }));
            if a.is_open() {
                fail("c17.waker.open_after_close", sig, "poll_close returned Ready but is_open() is true".into());
            }
            log.ev(ev::CLOSED_C, 0);
            drop(a);
            log
        })
    };
    let tb = {
        let mut log = Log::new(1, &clock);
        rt::spawn(move || {
            for i in 0..wakes {
                b.wake();
                log.ev(ev::WAKE, i as u32);
            }
            log.ev(ev::DROP_P, 0);
            drop(b);
            log
        })
    };
    let la = join(ta);
    let lb = join(tb);
    finish(format!("wakes={wakes}"), vec![la, lb], super::default_contended)
}

fn wait_for(h: &Handle, turn: &AtomicU32, want: u32, log: &mut Log) {
    rt::block_on(poll_fn(|cx| {
        if turn.load(Ordering::Acquire) >= want {
            return Poll::Ready(());
        }
        h.register(cx.waker());
        // re-check after registration: the peer may have published in between
        if turn.load(Ordering::Acquire) >= want {
            return Poll::Ready(());
        }
        log.ev(ev::PEND_C, want);
        Poll::Pending
    }))
}

fn pingpong() -> Outcome {
    let rounds = rt::range(1, 3) as u32;
    let clock = Arc::new(rt::Clock::new());
    let turn = Arc::new(AtomicU32::new(0));
    let (a, b) = atomic_waker::pair();
    let ta = {
        let (turn, mut log) = (turn.clone(), Log::new(0, &clock));
        rt::spawn(move || {
            for i in 0..rounds {
                wait_for(&a, &turn, 2 * i + 1, &mut log);
                log.ev(ev::GOT, 2 * i + 1);
                turn.store(2 * i + 2, Ordering::Release);
                a.wake();
                log.ev(ev::WAKE, 2 * i + 2);
            }
            log
        })
    };
    let tb = {
        let (turn, mut log) = (turn.clone(), Log::new(1, &clock));
        rt::spawn(move || {
            for i in 0..rounds {
                turn.store(2 * i + 1, Ordering::Release);
                b.wake();
                log.ev(ev::WAKE, 2 * i + 1);
                wait_for(&b, &turn, 2 * i + 2, &mut log);
                log.ev(ev::GOT, 2 * i + 2);
            }
            log
        })
    };
    let la = join(ta);
    let lb = join(tb);
    finish(format!("rounds={rounds}"), vec![la, lb], super::default_contended)
}
