//! C16 dispatcher: one seed = one history on one structure.

pub mod ack;
pub mod iset;
pub mod pnmap;
pub mod reasm;
pub mod window;

use crate::common::{History, Outcome};
use simkit::Rng;

pub fn generate(seed: u64) -> History {
    // the structure is a function of the seed only
    let pick = Rng::new(seed ^ 0x57c7).below(100);
    match pick {
        0..=49 => reasm::generate(seed),
        50..=58 => iset::generate(seed, false),
        59..=67 => iset::generate(seed, true),
        68..=78 => ack::generate(seed),
        79..=89 => pnmap::generate(seed),
        _ => window::generate(seed),
    }
}

pub fn execute(h: &History, trace: bool) -> Outcome {
    match h.structure.as_str() {
        "reassembler" => reasm::execute(h, trace),
        "iset_u8" | "iset_u64" => iset::execute(h, trace),
        "ack" => ack::execute(h, trace),
        "pnmap" => pnmap::execute(h, trace),
        _ => window::execute(h, trace),
    }
}

pub const RULE: &str = "one u64 seed -> one structure -> one operation history of length 1..200 (model-aware generator: offsets around 0, 4095/4096/4097, 65535/65536, 262144, 1 MiB, VarInt::MAX and around the model's cursor / highest offset / final size / previous writes). Every operation is applied to the real structure and the reference model and all observers are compared after it. Two histories are DISTINCT when the hash over their (operation, outcome) sequence differs. NON-TRIVIAL: reassembler = at least one write overlapping/duplicating buffered or consumed data AND at least one rejected write/skip or fired reader fault AND at least one byte popped and content-checked; interval set = at least one insert/union that merged intervals AND (one split by remove/difference OR one rejected operation); ack ranges = at least one eviction of the lowest range AND one merging insert; packet-number map = at least one ring resize AND one non-empty remove_range; sliding window = at least one Duplicate, one TooOld and one forward slide.";
