pub mod attack;
pub mod byz;
pub mod kernel;
pub mod net;
pub mod obs;
pub mod plan;
pub mod providers;
pub mod run;
pub mod simtls;
pub mod wire;

use plan::*;

fn basic_plan(seed: u64) -> Plan {
    let send = SendScript {
        total: 100_000,
        chunks: vec![1000, 7, 4096],
        mode: SendMode::Send,
        end: SendEnd::Finish,
        pauses: vec![],
        flush_every: 0,
    };
    let recv = RecvScript { mode: RecvMode::Receive, stop_at: None, pauses: vec![], start_delay_us: 0 };
    Plan {
        seed,
        property: "C01".into(),
        family: "basic".into(),
        cfg: Config::default(),
        conns: vec![ConnScript {
            start_us: 0,
            streams: vec![StreamPlan {
                opener: Role::Client,
                bidi: true,
                open_delay_us: 0,
                fwd: send.clone(),
                fwd_recv: recv.clone(),
                rev: Some(send),
                rev_recv: Some(recv),
            }],
            close: CloseSpec::AfterAll { by: Role::Client, code: 7 },
            rebinds: vec![],
            keep_alive: false,
        }],
        faults: vec![Fault {
            when: When::Window { dir: None, from_us: 0, to_us: u64::MAX, permille: 30, key: seed },
            action: Action::Drop,
        }],
        delay_key: seed ^ 1,
        yield_key: seed ^ 2,
        data_key: seed ^ 3,
        rand_key: seed ^ 4,
        time_cap_us: 120_000_000,
        faults_end_us: None,
        attacker: vec![],
    }
}

fn main() {
    run::install_panic_hook();
    let seed: u64 = std::env::args().nth(1).and_then(|s| s.parse().ok()).unwrap_or(1);
    let plan = basic_plan(seed);
    let t = std::time::Instant::now();
    let out = run::execute(&plan, false);
    println!("wall {:?} end_ns {} panic {:?}", t.elapsed(), out.end_ns, out.panic.as_ref().map(|s| &s[..s.len().min(2000)]));
    println!("sends {:#?}", out.app.sends);
    println!("recvs {:#?}", out.app.recvs);
    println!("conns {:#?}", out.app.conns);
    println!("capped {:?} pending {:?}", out.app.capped_tasks, out.app.pending_ops);
    println!("tx {} rx {} evs {} net {} fired {:?}", out.obs.tx.len(), out.obs.rx.len(), out.obs.evs.len(), out.net.log.len(), out.net.fired);
}
