#!/bin/bash
# usage: try_seed.sh <seed-dir under /verif/seeded> <check ids...>
# applies the patch to /repo, runs the checks (quick), reverts; prints one line per check
D=/verif/seeded/$1; shift
git -C /repo status --short | grep -q . && { echo "/repo not clean"; exit 2; }
git -C /repo apply $D/patch.diff || { echo "apply failed"; exit 2; }
for id in "$@"; do
  t0=$(date +%s)
  (cd /verif && ./check $id > $D/check_$id.log 2>&1); rc=$?
  t1=$(date +%s)
  echo "$id rc=$rc wall=$((t1-t0))s $(grep -c '^VIOLATION' $D/check_$id.log) VIOLATION lines; $(grep -E '^check|quick:' $D/check_$id.log | tail -1 | cut -c1-200)"
  grep -E "^violation" $D/check_$id.log | head -3 | cut -c1-400
done
git -C /repo checkout -- . 
git -C /repo status --short | head
