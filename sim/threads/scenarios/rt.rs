//! Runtime abstraction: the same scenario source runs
//!  * under shuttle (feature `shuttle`): shuttle threads / block_on / rand, every decision owned
//!    by the seeded scheduler and part of the persisted schedule;
//!  * under std threads (Miri or native): std threads, a park-based block_on, and a workload
//!    PRNG seeded by the runner (under Miri from Miri's own seeded entropy, so `-Zmiri-seed=N`
//!    replays both the schedule and the workload).
//!
//! Harness bookkeeping shared between scenario threads uses *std* atomics with `Relaxed`
//! ordering only: under shuttle they are no scheduling points, under Miri they add no
//! happens-before edges that could hide a race in the code under test.

use std::{
    future::Future,
    sync::atomic::{AtomicU64, Ordering},
};

#[cfg(feature = "shuttle")]
mod imp {
    use super::*;
    pub use shuttle::thread::{spawn, JoinHandle};

    /// a plain scheduling point (no priority change under PCT)
    #[inline]
    pub fn pause() {
        shuttle::thread::sleep(std::time::Duration::ZERO);
    }

    /// used inside spin-wait loops only: tells the scheduler the thread cannot make progress
    #[inline]
    pub fn spin() {
        shuttle::thread::yield_now();
    }

    pub fn block_on<F: Future>(f: F) -> F::Output {
        shuttle::future::block_on(f)
    }

    pub fn rand_u64() -> u64 {
        use shuttle::rand::Rng;
        shuttle::rand::thread_rng().gen()
    }

    pub const ENGINE: &str = "shuttle";
}

#[cfg(not(feature = "shuttle"))]
mod imp {
    use super::*;
    use std::{
        pin::pin,
        sync::{atomic::AtomicBool, Arc},
        task::{Context, Poll, Wake, Waker},
    };
    pub use std::thread::{spawn, JoinHandle};

    /// extra scheduling points are only needed under shuttle (for code that uses core atomics
    /// directly); Miri preempts on its own
    #[inline]
    pub fn pause() {}

    thread_local! {
        static SPINS: std::cell::Cell<u64> = const { std::cell::Cell::new(0) };
    }

    /// Every scenario thread is fresh and does a few dozen operations; if it has yielded this
    /// often inside spin-waits, what it waits for will never happen (e.g. the peer lost its
    /// wake-up and is parked for good while this thread polls a flag). Miri only reports a
    /// deadlock when *all* threads are blocked, so this bound turns the live-lock into a verdict.
    const SPIN_BOUND: u64 = if cfg!(miri) { 50_000 } else { 50_000_000 };

    #[inline]
    pub fn spin() {
        let n = SPINS.with(|c| {
            c.set(c.get() + 1);
            c.get()
        });
        if n > SPIN_BOUND {
            panic!("ORACLE|c17.no_progress|?|a thread spun {n} times waiting for its peer: the peer never got there (parked for good?)");
        }
        std::hint::spin_loop();
        std::thread::yield_now();
    }

    struct Unpark {
        thread: std::thread::Thread,
        woken: AtomicBool,
    }

    impl Wake for Unpark {
        fn wake(self: Arc<Self>) {
            self.wake_by_ref()
        }
        fn wake_by_ref(self: &Arc<Self>) {
            // what any executor does: publish, then unpark
            self.woken.store(true, Ordering::Release);
            self.thread.unpark();
        }
    }

    /// Minimal executor: poll, and if pending sleep until *this task's waker* is invoked.
    /// A lost wake-up therefore blocks forever and is reported by Miri as a deadlock.
    pub fn block_on<F: Future>(f: F) -> F::Output {
        let mut f = pin!(f);
        let un = Arc::new(Unpark { thread: std::thread::current(), woken: AtomicBool::new(false) });
        let waker = Waker::from(un.clone());
        let mut cx = Context::from_waker(&waker);
        loop {
            if let Poll::Ready(v) = f.as_mut().poll(&mut cx) {
                return v;
            }
            while !un.woken.swap(false, Ordering::Acquire) {
                std::thread::park();
            }
        }
    }

    static RNG: AtomicU64 = AtomicU64::new(0x9e3779b97f4a7c15);

    pub fn seed_rng(seed: u64) {
        RNG.store(seed | 1, Ordering::Relaxed);
    }

    /// only called from the scenario's main thread before it spawns anything
    pub fn rand_u64() -> u64 {
        let mut z = RNG.load(Ordering::Relaxed).wrapping_add(0x9e3779b97f4a7c15);
        RNG.store(z, Ordering::Relaxed);
        z = (z ^ (z >> 30)).wrapping_mul(0xbf58476d1ce4e5b9);
        z = (z ^ (z >> 27)).wrapping_mul(0x94d049bb133111eb);
        z ^ (z >> 31)
    }

    pub const ENGINE: &str = "std";
}

pub use imp::*;

/// uniform in 0..n
pub fn below(n: u64) -> u64 {
    if n == 0 {
        0
    } else {
        rand_u64() % n
    }
}

pub fn range(lo: u64, hi_incl: u64) -> u64 {
    lo + below(hi_incl - lo + 1)
}

pub fn coin() -> bool {
    rand_u64() & 1 == 1
}

/// Global sequence number: stamps every recorded event. A single atomic location has a total
/// modification order and RMWs read the latest value, so stamps respect real-time order even
/// with `Relaxed` (and add no synchronisation).
#[derive(Default)]
pub struct Clock(AtomicU64);

impl Clock {
    pub fn new() -> Self {
        Self(AtomicU64::new(0))
    }
    #[inline]
    pub fn stamp(&self) -> u64 {
        self.0.fetch_add(1, Ordering::Relaxed)
    }
}
