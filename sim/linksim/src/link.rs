//! E2 link simulator (DESIGN 2.3 / 3.9 / 3.10): sender <-> bottleneck <-> receiver.
//!
//! The sender side is a transcription of the *call order* of
//! `s2n-quic-transport/src/recovery/manager.rs` (which is private) on top of the real public
//! pieces of s2n-quic-core: `CubicCongestionController` / `BbrCongestionController` through the
//! `CongestionController` trait, `RttEstimator`, `loss::detect`, `Pto`, `SentPackets`
//! (`packet::number::Map`), `persistent_congestion::Calculator`.  Events come from a simulated
//! path (random capacity, queue, loss, ECN CE marking, reordering; receiver with ack
//! aggregation; ack loss / reordering / duplication; MTU probes and path-MTU shrink;
//! application-limited periods; outages; handshake-space discard), never from an arbitrary
//! call generator: acks exist only for packets that were sent and arrived, time is monotone.
//!
//! C10 oracles are evaluated after EVERY trait call; C09 oracles compare the recovery pieces
//! step by step with `shadow` (RFC 9002 appendix A, written from the RFC text).

use crate::{
    drv::{Engine, Outcome},
    shadow::ShadowRtt,
};
use s2n_quic_core::{
    event::builder::{BbrState, SlowStartExitCause},
    frame::ack_elicitation::AckElicitation,
    inet::ExplicitCongestionNotification,
    packet::number::{PacketNumber, PacketNumberRange, PacketNumberSpace},
    path, random,
    recovery::{
        bandwidth::{Bandwidth, RateSample},
        bbr::BbrCongestionController,
        congestion_controller::Publisher,
        loss, persistent_congestion, CongestionController, CubicCongestionController, Pto, RttEstimator, SentPacketInfo, SentPackets,
    },
    time::{timer::Provider as _, Timer, Timestamp},
    transmission,
    transport::parameters::MaxAckDelay,
    varint::VarInt,
};
use serde::{Deserialize, Serialize};
use serde_json::{json, Value};
use simkit::{ddmin, hashn, Fnv, Rng, Violation};
use std::{
    cmp::Reverse,
    collections::{BTreeMap, BTreeSet, BinaryHeap, VecDeque},
    task::Poll,
    time::Duration,
};

// ---------------------------------------------------------------------------------------
// plan

#[derive(Clone, Debug, Serialize, Deserialize, PartialEq)]
pub enum LFaultKind {
    /// data packet dropped on the path
    Loss,
    /// data packet marked CE
    EcnCe,
    /// data packet held back `us`
    Reorder { us: u64 },
    /// ack frame dropped
    AckLoss,
    /// ack frame held back `us`
    AckReorder { us: u64 },
    /// ack frame delivered a second time `us` later
    AckDup { us: u64 },
    /// sender starts probing for a larger datagram size
    MtuProbe { size: u16 },
    /// path MTU shrinks to `size`: larger datagrams are black-holed from now on
    MtuDrop { size: u16 },
    /// both directions drop everything for `us`
    Outage { us: u64 },
}

#[derive(Clone, Debug, Serialize, Deserialize, PartialEq)]
pub struct LFault {
    /// 0: `at` is the ordinal of a data packet entering the path, 1: ordinal of an ack frame,
    /// 2: virtual time in microseconds
    pub on: u8,
    pub at: u64,
    pub kind: LFaultKind,
}

#[derive(Clone, Debug, Serialize, Deserialize)]
pub struct AppPhase {
    /// bytes the application hands over at the start of the phase
    pub bytes: u64,
    /// time until the next phase starts
    pub then_idle_us: u64,
}

#[derive(Clone, Debug, Serialize, Deserialize)]
pub struct LPlan {
    pub seed: u64,
    pub family: String,
    pub cc: String,
    pub initial_mtu: u16,
    pub path_mtu: u16,
    pub initial_rtt_us: u64,
    pub max_ack_delay_ms: u64,
    pub capacity_bytes_per_s: u64,
    pub queue_bytes: u64,
    pub owd_us: [u64; 2],
    pub ecn: bool,
    pub ecn_mark_queue_bytes: Option<u64>,
    pub ack_every: u32,
    pub ack_delay_us: u64,
    pub ack_ranges_max: usize,
    pub small_packet_permille: u32,
    pub pure_ack_permille: u32,
    pub hs_space: String,
    pub hs_packets: u8,
    pub hs_discard_at_us: u64,
    pub max_pto_backoff: u32,
    pub duration_us: u64,
    pub app: Vec<AppPhase>,
    pub faults: Vec<LFault>,
}

pub fn gen_plan(seed: u64, property: &str) -> LPlan {
    let mut r = Rng::new(seed);
    let cc = if r.chance(1, 2) { "cubic" } else { "bbr" };
    let family = r.pick(&["bulk", "bulk", "app_limited", "outage", "lossy", "mtu", "reorder", "tiny_rtt"]);
    let any_mtu = r.range(1200, 9000) as u16;
    let initial_mtu = r.pick(&[1200u16, 1200, 1350, 1472, 4000, 9000, any_mtu, any_mtu]);
    let path_mtu = if r.chance(1, 3) { r.range(initial_mtu as u64, 9000) as u16 } else { 9000 };
    let tiny = family == "tiny_rtt";
    let owd = if tiny { [r.range(20, 400), r.range(20, 400)] } else { [r.size(500, 150_000), r.size(500, 150_000)] };
    let rtt = owd[0] + owd[1];
    // bandwidth-delay product 2..400 datagrams keeps a run at a few thousand packets
    let bdp_pkts = r.size(2, 400);
    let capacity = ((bdp_pkts as u128 * initial_mtu as u128 * 1_000_000 / rtt as u128) as u64).clamp(20_000, 2_000_000_000);
    let bdp = (capacity as u128 * rtt as u128 / 1_000_000) as u64;
    let queue = (bdp.max(3 * initial_mtu as u64) as f64 * [0.1, 0.5, 1.0, 2.0, 8.0][r.below(5) as usize]) as u64 + 2 * initial_mtu as u64;
    let ecn = r.chance(1, 2);
    let max_ack_delay_ms = r.pick(&[0u64, 1, 5, 25, 25, 50]);
    let ack_every = r.pick(&[1u32, 2, 2, 4, 10, 32]);
    let ack_delay_us = r.range(0, max_ack_delay_ms * 1000 + 200);
    let duration_us = (rtt * r.range(40, 300)).clamp(100_000, 60_000_000);
    // application phases
    let mut app = vec![];
    let mut t = 0;
    let phases = match family {
        "app_limited" => r.range(6, 40),
        _ => r.range(1, 4),
    };
    for _ in 0..phases {
        let bytes = match family {
            "app_limited" => r.size(initial_mtu as u64 / 2, 60 * initial_mtu as u64),
            _ => r.size(20 * initial_mtu as u64, 20_000 * initial_mtu as u64),
        };
        let idle = match family {
            "app_limited" => r.size(rtt / 4 + 1, rtt * 20 + 2),
            _ => r.size(rtt + 1, duration_us / 3 + 2),
        };
        app.push(AppPhase { bytes, then_idle_us: idle });
        t += idle;
        if t > duration_us {
            break;
        }
    }
    // explicit fault list.  Per-packet faults are placed on ordinals up to an estimate of how
    // many packets the run can carry; ordinals that are never reached simply do not fire.
    let est_packets = ((capacity as u128 * duration_us as u128 / 1_000_000) as u64 / initial_mtu as u64).clamp(200, MAX_PACKETS);
    let loss_pm = match family {
        "lossy" => r.pick(&[5u64, 20, 50, 150]),
        _ => r.pick(&[0u64, 0, 1, 5, 20]),
    };
    let ce_pm = if ecn { r.pick(&[0u64, 0, 2, 20, 100]) } else { 0 };
    let reo_pm = match family {
        "reorder" => r.pick(&[10u64, 50, 200]),
        _ => r.pick(&[0u64, 0, 2, 10]),
    };
    let ackloss_pm = r.pick(&[0u64, 0, 10, 100, 300]);
    let ackreo_pm = r.pick(&[0u64, 0, 5, 50]);
    let mut faults = vec![];
    let mut ord = 0;
    while ord < est_packets {
        if loss_pm > 0 && r.chance(loss_pm, 1000) {
            let burst = if r.chance(1, 4) { r.range(2, 12) } else { 1 };
            for j in 0..burst {
                faults.push(LFault { on: 0, at: ord + j, kind: LFaultKind::Loss });
            }
            ord += burst;
            continue;
        }
        if ce_pm > 0 && r.chance(ce_pm, 1000) {
            faults.push(LFault { on: 0, at: ord, kind: LFaultKind::EcnCe });
        }
        if reo_pm > 0 && r.chance(reo_pm, 1000) {
            // beyond 3 packets and beyond 9/8 RTT as well as tiny displacements
            let cands = [r.range(1, 200), r.range(1, rtt / 4 + 2), r.range(rtt / 2, 3 * rtt + 2)];
            let us = r.pick(&cands);
            faults.push(LFault { on: 0, at: ord, kind: LFaultKind::Reorder { us } });
        }
        ord += 1;
    }
    let est_acks = est_packets / ack_every as u64 + 50;
    for a in 0..est_acks {
        if ackloss_pm > 0 && r.chance(ackloss_pm, 1000) {
            faults.push(LFault { on: 1, at: a, kind: LFaultKind::AckLoss });
        } else if ackreo_pm > 0 && r.chance(ackreo_pm, 1000) {
            let us = r.range(1, 2 * rtt + 2);
            let kind = if r.chance(1, 2) { LFaultKind::AckReorder { us } } else { LFaultKind::AckDup { us } };
            faults.push(LFault { on: 1, at: a, kind });
        }
    }
    // timed faults
    let n_out = match family {
        "outage" => r.range(1, 4),
        _ => r.below(2),
    };
    for _ in 0..n_out {
        // long enough for persistent congestion: several PTOs
        let us = r.pick(&[rtt / 2 + 1, 3 * rtt + 30_000, 8 * rtt + 120_000, 20 * rtt + 400_000]);
        faults.push(LFault { on: 2, at: r.range(rtt, duration_us * 3 / 4), kind: LFaultKind::Outage { us } });
    }
    let n_mtu = match family {
        "mtu" => r.range(1, 5),
        _ => r.below(2),
    };
    for _ in 0..n_mtu {
        let at = r.range(1, duration_us * 3 / 4);
        if r.chance(2, 3) {
            faults.push(LFault { on: 2, at, kind: LFaultKind::MtuProbe { size: r.range(1201, 9000) as u16 } });
        } else {
            faults.push(LFault { on: 2, at, kind: LFaultKind::MtuDrop { size: r.range(1200, 9000) as u16 } });
        }
    }
    faults.sort_by_key(|f| (f.on, f.at));
    let _ = property;
    LPlan {
        seed,
        family: family.into(),
        cc: cc.into(),
        initial_mtu,
        path_mtu,
        initial_rtt_us: r.pick(&[333_000u64, 333_000, 100_000, 25_000, 1_000_000]),
        max_ack_delay_ms,
        capacity_bytes_per_s: capacity,
        queue_bytes: queue,
        owd_us: owd,
        ecn,
        ecn_mark_queue_bytes: if ecn && r.chance(1, 2) { Some(queue / r.range(2, 6)) } else { None },
        ack_every,
        ack_delay_us,
        ack_ranges_max: r.pick(&[1usize, 2, 8, 32, 64]),
        small_packet_permille: r.pick(&[0u32, 20, 200, 600]),
        pure_ack_permille: r.pick(&[0u32, 0, 10, 100]),
        hs_space: r.pick(&["initial", "handshake", "handshake"]).into(),
        hs_packets: r.below(5) as u8,
        hs_discard_at_us: r.pick(&[rtt / 2, rtt, 2 * rtt, 5 * rtt, 20 * rtt]) + r.below(1000),
        max_pto_backoff: r.pick(&[2u32, 8, 64, 1 << 16]),
        duration_us,
        app,
        faults,
    }
}

// ---------------------------------------------------------------------------------------
// controller abstraction

pub trait CcKind: CongestionController {
    const NAME: &'static str;
    /// minimum window in maximum-size datagrams (RFC 9002 7.2: 2 for the RFC's controller;
    /// BBRv2 draft 2.8 BBRMinPipeCwnd: 4)
    const MIN_WINDOW_PACKETS: u32;
    const IS_CUBIC: bool;
    fn create(mtu: u16) -> Self;
}

impl CcKind for CubicCongestionController {
    const NAME: &'static str = "cubic";
    const MIN_WINDOW_PACKETS: u32 = 2;
    const IS_CUBIC: bool = true;
    fn create(mtu: u16) -> Self {
        CubicCongestionController::new(mtu, Default::default())
    }
}

impl CcKind for BbrCongestionController {
    const NAME: &'static str = "bbr";
    const MIN_WINDOW_PACKETS: u32 = 4;
    const IS_CUBIC: bool = false;
    fn create(mtu: u16) -> Self {
        BbrCongestionController::new(mtu, Default::default())
    }
}

#[derive(Default)]
struct Pubr {
    slow_start_exits: Vec<&'static str>,
    bbr_states: Vec<&'static str>,
}

impl Publisher for Pubr {
    fn on_slow_start_exited(&mut self, cause: SlowStartExitCause, _cwnd: u32) {
        self.slow_start_exits.push(match cause {
            SlowStartExitCause::PacketLoss => "slow_start_exit_loss",
            SlowStartExitCause::Ecn => "slow_start_exit_ecn",
            SlowStartExitCause::Rtt => "slow_start_exit_rtt",
            SlowStartExitCause::Other => "slow_start_exit_other",
        });
    }
    fn on_delivery_rate_sampled(&mut self, _r: RateSample) {}
    fn on_pacing_rate_updated(&mut self, _p: Bandwidth, _b: u32, _g: num_ratio::Ratio) {}
    fn on_bbr_state_changed(&mut self, state: BbrState) {
        self.bbr_states.push(match state {
            BbrState::Startup => "bbr_startup_reentered",
            BbrState::Drain => "bbr_drain",
            BbrState::ProbeBwDown => "bbr_probe_bw_down",
            BbrState::ProbeBwCruise => "bbr_probe_bw_cruise",
            BbrState::ProbeBwRefill => "bbr_probe_bw_refill",
            BbrState::ProbeBwUp => "bbr_probe_bw_up",
            BbrState::ProbeRtt => "bbr_probe_rtt",
        });
    }
}

/// `num_rational::Ratio<u64>` appears in the Publisher trait; s2n-quic-core does not re-export
/// it, so the type is named through this tiny shim module.
mod num_ratio {
    pub type Ratio = num_rational::Ratio<u64>;
}

struct SimRand(Rng);
impl random::Generator for SimRand {
    fn public_random_fill(&mut self, dest: &mut [u8]) {
        self.0.fill(dest)
    }
    fn private_random_fill(&mut self, dest: &mut [u8]) {
        self.0.fill(dest)
    }
}

// ---------------------------------------------------------------------------------------
// wire objects and events

#[derive(Clone, Debug)]
struct Pkt {
    space: usize,
    pn: u64,
    size: u32,
    eliciting: bool,
}

#[derive(Clone, Debug)]
struct AckF {
    space: usize,
    /// inclusive ranges, largest first
    ranges: Vec<(u64, u64)>,
    largest: u64,
    ack_delay_us: u64,
    ce: u64,
}

#[derive(Clone, Debug)]
enum Ev {
    AppData { bytes: u64 },
    SendTick,
    Arrive { pkt: Pkt, ce: bool },
    RxAckTimer { space: usize },
    AckArrive { ack: AckF },
    SenderTimer,
    HsDiscard,
    Timed { fault: usize },
    End,
}

#[derive(Clone, Copy, Debug, PartialEq)]
enum Mode {
    Normal,
    PtoProbe,
    MtuProbe,
}

#[derive(Clone, Copy, Debug)]
struct Meta {
    t_sent: u64,
    bytes: u32,
    eliciting: bool,
    mode: Mode,
}

struct Space<PI> {
    id: PacketNumberSpace,
    sent: SentPackets<PI>,
    largest_acked: Option<PacketNumber>,
    loss_timer: Timer,
    pto: Pto,
    time_of_last_ack_eliciting: Option<Timestamp>,
    next_pn: u64,
    discarded: bool,
    // shadow bookkeeping (harness side)
    unresolved: BTreeMap<u64, Meta>,
    acked: BTreeSet<u64>,
    resolved: u64,
    /// baseline CE count of the peer's reports
    ce_baseline: u64,
}

struct RxSpace {
    received: BTreeSet<u64>,
    largest: Option<(u64, u64)>,
    unacked_eliciting: u32,
    timer_at: Option<u64>,
    ce: u64,
}

fn ts(us: u64) -> Timestamp {
    unsafe { Timestamp::from_duration(Duration::from_micros(us.max(1))) }
}

fn ts_us(t: Timestamp) -> u64 {
    unsafe { t.as_duration().as_micros() as u64 }
}

/// LINKSIM_STRICT=1 promotes the C10 observation "CUBIC reduction for a packet sent before the
/// previous recovery start" (stricter than the property statement and the RFC prose) to a
/// violation.  Off by default.
fn strict() -> bool {
    static S: std::sync::OnceLock<bool> = std::sync::OnceLock::new();
    *S.get_or_init(|| std::env::var("LINKSIM_STRICT").is_ok_and(|v| v == "1"))
}

const MAX_BURST: u32 = 10;
/// a run ends after this many packets entered the path
const MAX_PACKETS: u64 = 6_000;

pub struct Sim<'p, CC: CcKind> {
    plan: &'p LPlan,
    check: &'static str,
    now: u64,
    seq: u64,
    q: BinaryHeap<Reverse<(u64, u64, usize)>>,
    evs: Vec<Option<Ev>>,
    out: Outcome,
    kinds: Fnv,
    stop: bool,
    tail: VecDeque<String>,
    // sender
    cc: CC,
    rng: SimRand,
    pubr: Pubr,
    rtt: RttEstimator,
    sh_rtt: ShadowRtt,
    mtu: u16,
    pto_backoff: u32,
    handshake_confirmed: bool,
    spaces: [Space<CC::PacketInfo>; 2],
    backlog: u64,
    tick_at: Option<u64>,
    timer_at: Option<u64>,
    mtu_probe_pending: Option<u16>,
    black_hole_counter: u32,
    data_ord: u64,
    ack_ord: u64,
    // C10 shadow
    sh_bif: u64,
    recovery_start: Option<u64>,
    recovery_open: bool,
    no_growth_expected: bool,
    reductions: u64,
    recovery_exits: u64,
    acked_packets: u64,
    rtt_samples: u64,
    lost_packets: u64,
    timer_expiries: u64,
    last_pto: Option<(u64, u32, usize)>,
    // path
    link_free_at: u64,
    queue: VecDeque<(u64, u32)>,
    queue_bytes: u64,
    path_mtu: u32,
    outage_until: u64,
    faults_data: BTreeMap<u64, Vec<LFaultKind>>,
    faults_ack: BTreeMap<u64, Vec<LFaultKind>>,
    // receiver
    rx: [RxSpace; 2],
}

macro_rules! cc_call {
    ($s:ident, $kind:expr, $lost_t:expr, |$cc:ident, $p:ident, $r:ident| $body:expr) => {{
        let before = ($s.cc.congestion_window(), $s.cc.bytes_in_flight());
        let r = {
            let $cc = &mut $s.cc;
            let $p = &mut $s.pubr;
            let $r = &mut $s.rng;
            let _ = &$r;
            $body
        };
        $s.after_cc_call($kind, before, $lost_t);
        r
    }};
}

#[derive(Clone, Copy, Debug, PartialEq)]
enum Call {
    Sent { app_limited: Option<bool>, bytes: u32 },
    RttUpdate,
    Ack { newest_t_sent: u64 },
    Lost { persistent: bool },
    Ecn,
    Mtu,
    Discard,
}

impl<'p, CC: CcKind> Sim<'p, CC> {
    pub fn new(plan: &'p LPlan, check: &'static str) -> Self {
        let hs_id = if plan.hs_space == "initial" { PacketNumberSpace::Initial } else { PacketNumberSpace::Handshake };
        let mk_space = |id| Space {
            id,
            sent: SentPackets::default(),
            largest_acked: None,
            loss_timer: Timer::default(),
            pto: Pto::default(),
            time_of_last_ack_eliciting: None,
            next_pn: 0,
            discarded: false,
            unresolved: BTreeMap::new(),
            acked: BTreeSet::new(),
            resolved: 0,
            ce_baseline: 0,
        };
        let mk_rx = || RxSpace { received: BTreeSet::new(), largest: None, unacked_eliciting: 0, timer_at: None, ce: 0 };
        let mut rtt = RttEstimator::new(Duration::from_micros(plan.initial_rtt_us));
        rtt.on_max_ack_delay(MaxAckDelay::try_from(Duration::from_millis(plan.max_ack_delay_ms)).expect("max_ack_delay"));
        let mut faults_data: BTreeMap<u64, Vec<LFaultKind>> = BTreeMap::new();
        let mut faults_ack: BTreeMap<u64, Vec<LFaultKind>> = BTreeMap::new();
        for f in &plan.faults {
            match f.on {
                0 => faults_data.entry(f.at).or_default().push(f.kind.clone()),
                1 => faults_ack.entry(f.at).or_default().push(f.kind.clone()),
                _ => {}
            }
        }
        let mut s = Sim {
            plan,
            check,
            now: 1,
            seq: 0,
            q: BinaryHeap::new(),
            evs: vec![],
            out: Outcome::default(),
            kinds: Fnv::default(),
            stop: false,
            tail: VecDeque::new(),
            cc: CC::create(plan.initial_mtu),
            rng: SimRand(Rng::new(plan.seed ^ 0xcc)),
            pubr: Pubr::default(),
            rtt,
            sh_rtt: ShadowRtt::new(plan.initial_rtt_us, plan.max_ack_delay_ms * 1000),
            mtu: plan.initial_mtu,
            pto_backoff: 1,
            handshake_confirmed: plan.hs_packets == 0,
            spaces: [mk_space(hs_id), mk_space(PacketNumberSpace::ApplicationData)],
            backlog: 0,
            tick_at: None,
            timer_at: None,
            mtu_probe_pending: None,
            black_hole_counter: 0,
            data_ord: 0,
            ack_ord: 0,
            sh_bif: 0,
            recovery_start: None,
            recovery_open: false,
            no_growth_expected: false,
            reductions: 0,
            recovery_exits: 0,
            acked_packets: 0,
            rtt_samples: 0,
            lost_packets: 0,
            timer_expiries: 0,
            last_pto: None,
            link_free_at: 0,
            queue: VecDeque::new(),
            queue_bytes: 0,
            path_mtu: plan.path_mtu as u32,
            outage_until: 0,
            faults_data,
            faults_ack,
            rx: [mk_rx(), mk_rx()],
        };
        // schedule
        let mut t = 1;
        for ph in &plan.app {
            s.push(t, Ev::AppData { bytes: ph.bytes });
            t += ph.then_idle_us;
        }
        for (i, f) in plan.faults.iter().enumerate() {
            if f.on == 2 {
                s.push(f.at.max(1), Ev::Timed { fault: i });
            }
        }
        if plan.hs_packets > 0 {
            s.push(plan.hs_discard_at_us.max(2), Ev::HsDiscard);
        } else {
            s.spaces[0].discarded = true;
        }
        s.push(plan.duration_us, Ev::End);
        s.push(1, Ev::SendTick);
        s
    }

    fn push(&mut self, at: u64, ev: Ev) {
        self.seq += 1;
        self.evs.push(Some(ev));
        self.q.push(Reverse((at.max(self.now), self.seq, self.evs.len() - 1)));
    }

    fn log(&mut self, kind: &'static str, detail: impl FnOnce(&Self) -> String) {
        self.out.events += 1;
        self.kinds.write(kind.as_bytes());
        if self.out.first_events.len() < 24 {
            let d = detail(self);
            self.out.first_events.push(format!("t={}us {} {}", self.now, kind, d));
        } else {
            let d = detail(self);
            if self.tail.len() == 60 {
                self.tail.pop_front();
            }
            self.tail.push_back(format!("t={}us {} {}", self.now, kind, d));
        }
    }

    fn violate(&mut self, property: &str, oracle: &str, detail: String) {
        if self.stop || property != self.check {
            return;
        }
        let tail: Vec<String> = self.tail.iter().rev().take(6).rev().cloned().collect();
        self.out.violations.push(Violation {
            property: property.into(),
            oracle: oracle.into(),
            detail: format!("[{} mtu={}] t={}us {} | recent: {}", CC::NAME, self.mtu, self.now, detail, tail.join(" ; ")),
            sig: format!("{}:{}", CC::NAME, oracle),
        });
        self.stop = true;
    }

    /// A violation with a cause-specific signature that is stable across controllers (so one
    /// known_findings entry can match it).  Recorded once per run; the run continues so that
    /// everything after it is still checked by the other oracles.
    fn violate_known_cause(&mut self, property: &str, oracle: &str, sig: &str, detail: String) {
        if self.stop || property != self.check || self.out.violations.iter().any(|v| v.oracle == oracle && v.sig == sig) {
            return;
        }
        let tail: Vec<String> = self.tail.iter().rev().take(6).rev().cloned().collect();
        self.out.violations.push(Violation {
            property: property.into(),
            oracle: oracle.into(),
            detail: format!("[{} mtu={}] t={}us {} | recent: {}", CC::NAME, self.mtu, self.now, detail, tail.join(" ; ")),
            sig: sig.into(),
        });
    }

    // -----------------------------------------------------------------------------------
    // C10: checks after every trait call

    fn min_window(&self) -> u32 {
        CC::MIN_WINDOW_PACKETS * self.mtu as u32
    }

    fn after_cc_call(&mut self, call: Call, before: (u32, u32), lost_t_sent: Option<u64>) {
        for k in std::mem::take(&mut self.pubr.slow_start_exits) {
            self.out.probe(k);
        }
        for k in std::mem::take(&mut self.pubr.bbr_states) {
            self.out.probe(k);
        }
        self.out.oracle_evals += 1;
        let cwnd = self.cc.congestion_window();
        let bif = self.cc.bytes_in_flight();
        let min = self.min_window();
        if cwnd < min {
            self.violate("C10", "cwnd_below_minimum", format!("after {call:?}: congestion_window={cwnd} < minimum {min} ({} x max_datagram_size {}), before={}", CC::MIN_WINDOW_PACKETS, self.mtu, before.0));
        }
        if cwnd == u32::MAX {
            self.violate("C10", "cwnd_overflow", format!("after {call:?}: congestion_window saturated at u32::MAX (before {})", before.0));
        }
        if bif as u64 != self.sh_bif {
            self.violate("C10", "bytes_in_flight_mismatch", format!("after {call:?}: bytes_in_flight()={bif} but outstanding sent bytes={} (before call {})", self.sh_bif, before.1));
        }
        if !CC::IS_CUBIC {
            return;
        }
        match call {
            Call::Lost { persistent } => {
                if cwnd > before.0 {
                    self.violate("C10", "cubic_loss_increased_cwnd", format!("on_packet_lost raised congestion_window {} -> {cwnd}", before.0));
                }
                if persistent {
                    self.out.probe("persistent_congestion");
                    if cwnd != min {
                        self.violate("C10", "cubic_persistent_congestion_not_minimum", format!("persistent congestion: congestion_window={cwnd}, minimum={min}"));
                    }
                    // RFC 9002 B.8: recovery start is reset
                    self.recovery_open = false;
                    self.recovery_start = None;
                } else if cwnd < before.0 {
                    self.on_reduction("loss", before.0, cwnd, lost_t_sent);
                }
            }
            Call::Ecn => {
                if cwnd > before.0 {
                    self.violate("C10", "cubic_ecn_increased_cwnd", format!("on_explicit_congestion raised congestion_window {} -> {cwnd}", before.0));
                }
                if cwnd < before.0 {
                    self.on_reduction("ecn", before.0, cwnd, None);
                }
            }
            Call::Ack { newest_t_sent } => {
                if self.no_growth_expected && cwnd > before.0 {
                    self.violate(
                        "C10",
                        "cubic_grew_while_app_limited",
                        format!("on_ack raised congestion_window {} -> {cwnd} although the last packet was sent with app_limited=Some(true) while less than half of the window was in use and more than 3 datagrams of room were left", before.0),
                    );
                }
                if self.recovery_open && self.recovery_start.is_some_and(|t| newest_t_sent > t) {
                    // RFC 9002 7.3.2: the recovery period ends when a packet sent during the
                    // recovery period is acknowledged
                    self.recovery_open = false;
                    self.recovery_exits += 1;
                    self.out.probe("recovery_exit");
                }
            }
            Call::Sent { app_limited, bytes } => {
                if bytes > 0 {
                    let avail = cwnd.saturating_sub(bif);
                    self.no_growth_expected = app_limited == Some(true) && avail > 3 * self.mtu as u32 && bif < cwnd / 2;
                    if self.no_growth_expected {
                        self.out.probe("sent_app_limited_underutilized");
                    }
                }
            }
            _ => {}
        }
    }

    fn on_reduction(&mut self, why: &'static str, from: u32, to: u32, lost_t_sent: Option<u64>) {
        self.reductions += 1;
        self.out.probe("entered_recovery");
        if self.recovery_open {
            self.violate(
                "C10",
                "cubic_second_reduction_in_recovery_period",
                format!(
                    "{why}: congestion_window reduced {from} -> {to} although the recovery period started at t={:?}us is still open (no packet sent after its start has been acknowledged)",
                    self.recovery_start
                ),
            );
        } else if let (Some(start), Some(t_sent)) = (self.recovery_start, lost_t_sent) {
            // stricter reading (RFC 9002 appendix B.6 pseudocode, not the prose and not the
            // property statement): a loss of a packet sent before the previous recovery
            // start still reduces the window once that period has ended.  Observation only.
            if t_sent <= start {
                self.out.observe("cubic_reduction_for_packet_sent_before_previous_recovery_start");
                if strict() {
                    self.violate("C10", "cubic_reduction_for_pre_recovery_packet_strict", format!("{why}: congestion_window reduced {from} -> {to} for a packet sent at {t_sent}us, before the previous recovery start {start}us (RFC 9002 B.6 InCongestionRecovery)"));
                }
                if self.out.obs_example.is_none() {
                    let tail: Vec<String> = self.tail.iter().rev().take(14).rev().cloned().collect();
                    self.out.obs_example = Some((
                        "cubic_reduction_for_packet_sent_before_previous_recovery_start".into(),
                        json!({"now_us": self.now, "previous_recovery_start_us": start, "lost_packet_sent_us": t_sent, "cwnd": [from, to], "recent_events": tail}),
                    ));
                }
            }
        }
        self.recovery_start = Some(self.now);
        self.recovery_open = true;
    }

    // -----------------------------------------------------------------------------------
    // sender: transmission

    fn can_send(&self) -> bool {
        !self.cc.is_congestion_limited() || self.cc.requires_fast_retransmission()
    }

    fn send_packet(&mut self, six: usize, size: u32, eliciting: bool, mode: Mode, more_data: bool) {
        let now_ts = ts(self.now);
        let congestion_controlled = size > 0 && (eliciting || mode != Mode::Normal);
        let cc_bytes = if congestion_controlled { size } else { 0 };
        let app_limited = if six == 0 {
            None
        } else {
            // transport: !path.is_congestion_limited(bytes_sent) && !has_transmission_interest
            let cwnd = self.cc.congestion_window();
            let bif = self.cc.bytes_in_flight().saturating_add(cc_bytes);
            let cong_limited = cwnd.saturating_sub(bif) < self.mtu as u32;
            Some(!cong_limited && !more_data)
        };
        self.sh_bif += cc_bytes as u64;
        let rtt = self.rtt;
        let info = cc_call!(self, Call::Sent { app_limited, bytes: cc_bytes }, None, |cc, p, _r| cc.on_packet_sent(now_ts, cc_bytes as usize, app_limited, &rtt, p));
        let sp = &mut self.spaces[six];
        let pnv = sp.next_pn;
        sp.next_pn += 1;
        let pn = sp.id.new_packet_number(VarInt::new(pnv).unwrap());
        let tmode = match mode {
            Mode::Normal => transmission::Mode::Normal,
            Mode::PtoProbe => transmission::Mode::LossRecoveryProbing,
            Mode::MtuProbe => transmission::Mode::MtuProbing,
        };
        sp.sent.insert(
            pn,
            SentPacketInfo::new(
                congestion_controlled,
                cc_bytes as usize,
                now_ts,
                if eliciting { AckElicitation::Eliciting } else { AckElicitation::NonEliciting },
                unsafe { path::Id::new(0) },
                if self.plan.ecn { ExplicitCongestionNotification::Ect0 } else { ExplicitCongestionNotification::NotEct },
                tmode,
                info,
            ),
        );
        sp.unresolved.insert(pnv, Meta { t_sent: self.now, bytes: cc_bytes, eliciting, mode });
        if eliciting {
            sp.time_of_last_ack_eliciting = Some(now_ts);
        }
        self.log(
            match mode {
                Mode::Normal => {
                    if eliciting {
                        "send"
                    } else {
                        "send_ackonly"
                    }
                }
                Mode::PtoProbe => "send_pto_probe",
                Mode::MtuProbe => "send_mtu_probe",
            },
            |s| format!("sp{six} pn={pnv} bytes={cc_bytes} app_limited={app_limited:?} cwnd={} bif={}", s.cc.congestion_window(), s.cc.bytes_in_flight()),
        );
        // wire size: ack-only packets still occupy the link
        let wire = if size == 0 { 60 } else { size };
        self.enter_path(Pkt { space: six, pn: pnv, size: wire, eliciting });
    }

    fn next_size(&mut self) -> u32 {
        let h = hashn(self.plan.seed, &[0x512e, self.spaces[1].next_pn]);
        let mtu = self.mtu as u64;
        let want = if (h % 1000) < self.plan.small_packet_permille as u64 { 40 + (h >> 16) % (mtu - 39) } else { mtu };
        want.min(self.backlog.max(40)).min(mtu) as u32
    }

    fn send_tick(&mut self) {
        let mut burst = 0;
        loop {
            if self.stop {
                return;
            }
            // handshake flight first
            let hs_left = !self.spaces[0].discarded && self.spaces[0].next_pn < self.plan.hs_packets as u64 && self.spaces[0].unresolved.is_empty() && self.spaces[0].resolved == 0;
            let want_hs = hs_left || (!self.spaces[0].discarded && self.spaces[0].next_pn > 0 && self.spaces[0].next_pn < self.plan.hs_packets as u64);
            let want_probe = self.mtu_probe_pending.is_some() && self.spaces[1].next_pn > 0;
            if !want_hs && self.backlog == 0 && !want_probe {
                return;
            }
            if !self.can_send() {
                self.out.probe("congestion_limited");
                return;
            }
            if let Some(t) = self.cc.earliest_departure_time() {
                let t = ts_us(t);
                if t > self.now {
                    // pacing: come back at the departure time (bounded to keep the run finite)
                    let at = t.min(self.now + 2_000_000);
                    self.out.probe("paced");
                    self.schedule_tick(at);
                    return;
                }
            }
            if burst >= MAX_BURST {
                self.schedule_tick(self.now + 20);
                return;
            }
            burst += 1;
            if want_hs {
                let size = self.mtu as u32;
                self.send_packet(0, size, true, Mode::Normal, true);
                continue;
            }
            if want_probe {
                let size = self.mtu_probe_pending.take().unwrap();
                self.send_packet(1, size as u32, true, Mode::MtuProbe, self.backlog > 0);
                continue;
            }
            let h = hashn(self.plan.seed, &[0xac0, self.spaces[1].next_pn]);
            if (h % 1000) < self.plan.pure_ack_permille as u64 {
                self.send_packet(1, 0, false, Mode::Normal, true);
            }
            let size = self.next_size();
            self.backlog = self.backlog.saturating_sub(size as u64);
            let more = self.backlog > 0;
            self.send_packet(1, size, true, Mode::Normal, more);
        }
    }

    fn schedule_tick(&mut self, at: u64) {
        if self.tick_at.is_none_or(|t| at < t) {
            self.tick_at = Some(at);
            self.push(at, Ev::SendTick);
        }
    }

    /// transport: on_transmit_burst_complete -> update_pto_timer when an ack-eliciting packet
    /// was sent
    fn after_transmit(&mut self) {
        for six in 0..2 {
            if !self.spaces[six].discarded {
                self.update_pto_timer(six);
            }
        }
        self.sync_sender_timer();
    }

    // -----------------------------------------------------------------------------------
    // path

    fn enter_path(&mut self, pkt: Pkt) {
        let plan = self.plan;
        let ord = self.data_ord;
        self.data_ord += 1;
        if self.data_ord == MAX_PACKETS {
            self.push(self.now, Ev::End);
        }
        let fs = self.faults_data.get(&ord).cloned().unwrap_or_default();
        if self.now < self.outage_until {
            self.out.fault("outage_drop");
            self.log("drop_outage", |_| format!("sp{} pn={}", pkt.space, pkt.pn));
            return;
        }
        if pkt.size > self.path_mtu {
            self.out.fault("mtu_blackhole_drop");
            self.log("drop_mtu", |_| format!("sp{} pn={} size={}", pkt.space, pkt.pn, pkt.size));
            return;
        }
        if fs.contains(&LFaultKind::Loss) {
            self.out.fault("loss");
            self.log("drop_fault", |_| format!("sp{} pn={}", pkt.space, pkt.pn));
            return;
        }
        // bottleneck queue
        while self.queue.front().is_some_and(|(d, _)| *d <= self.now) {
            let (_, sz) = self.queue.pop_front().unwrap();
            self.queue_bytes -= sz as u64;
        }
        let occupancy: u64 = self.queue_bytes;
        if occupancy + pkt.size as u64 > plan.queue_bytes {
            self.out.fault("queue_overflow_drop");
            self.log("drop_queue", |_| format!("sp{} pn={} occupancy={occupancy}", pkt.space, pkt.pn));
            return;
        }
        let start = self.link_free_at.max(self.now);
        let tx = (pkt.size as u128 * 1_000_000 / plan.capacity_bytes_per_s.max(1) as u128) as u64;
        let depart = start + tx.max(1);
        self.link_free_at = depart;
        self.queue.push_back((depart, pkt.size));
        self.queue_bytes += pkt.size as u64;
        let mut ce = false;
        if plan.ecn {
            if fs.contains(&LFaultKind::EcnCe) {
                ce = true;
            }
            if plan.ecn_mark_queue_bytes.is_some_and(|thr| occupancy > thr) {
                ce = true;
            }
            if ce {
                self.out.fault("ecn_ce");
            }
        }
        let mut extra = 0;
        for f in &fs {
            if let LFaultKind::Reorder { us } = f {
                extra += us;
                self.out.fault("reorder");
            }
        }
        self.push(depart + plan.owd_us[0] + extra, Ev::Arrive { pkt, ce });
    }

    // -----------------------------------------------------------------------------------
    // receiver

    fn arrive(&mut self, pkt: Pkt, ce: bool) {
        let plan = self.plan;
        let now = self.now;
        let rx = &mut self.rx[pkt.space];
        let dup = !rx.received.insert(pkt.pn);
        if dup {
            return;
        }
        if ce {
            rx.ce += 1;
        }
        let out_of_order = rx.largest.is_some_and(|(l, _)| pkt.pn != l + 1);
        if rx.largest.is_none_or(|(l, _)| pkt.pn > l) {
            rx.largest = Some((pkt.pn, now));
        }
        if pkt.eliciting {
            rx.unacked_eliciting += 1;
        }
        // handshake-space packets are acknowledged immediately (RFC 9000 13.2.1); 1-RTT packets
        // after `ack_every` ack-eliciting packets, on reordering, on CE, or when the delayed-ack
        // timer fires
        let immediate = pkt.space == 0 || rx.unacked_eliciting >= plan.ack_every || (pkt.eliciting && (out_of_order || ce));
        if immediate && rx.unacked_eliciting > 0 {
            self.emit_ack(pkt.space);
        } else if pkt.eliciting && self.rx[pkt.space].timer_at.is_none() {
            let at = now + plan.ack_delay_us.max(1);
            self.rx[pkt.space].timer_at = Some(at);
            self.push(at, Ev::RxAckTimer { space: pkt.space });
        }
    }

    fn emit_ack(&mut self, space: usize) {
        let plan = self.plan;
        let now = self.now;
        let rx = &mut self.rx[space];
        rx.unacked_eliciting = 0;
        rx.timer_at = None;
        let Some((largest, t_largest)) = rx.largest else { return };
        let mut ranges: Vec<(u64, u64)> = vec![];
        for pn in rx.received.iter().rev() {
            match ranges.last_mut() {
                Some((lo, _)) if *lo == pn + 1 => *lo = *pn,
                _ => {
                    if ranges.len() == plan.ack_ranges_max {
                        break;
                    }
                    ranges.push((*pn, *pn));
                }
            }
        }
        let ack = AckF { space, ranges, largest, ack_delay_us: now - t_largest, ce: rx.ce };
        // bound receiver state: forget everything below the oldest reported range once it is
        // far behind (a real receiver stops reporting ranges the peer has seen acknowledged)
        if rx.received.len() > 1024 {
            let cut = largest.saturating_sub(512);
            rx.received = rx.received.split_off(&cut);
        }
        let ord = self.ack_ord;
        self.ack_ord += 1;
        let fs = self.faults_ack.get(&ord).cloned().unwrap_or_default();
        if self.now < self.outage_until {
            self.out.fault("outage_drop");
            return;
        }
        let mut extra = 0;
        for f in &fs {
            match f {
                LFaultKind::AckLoss => {
                    self.out.fault("ack_loss");
                    self.log("ack_dropped", |_| format!("sp{space} largest={largest}"));
                    return;
                }
                LFaultKind::AckReorder { us } => {
                    extra += us;
                    self.out.fault("ack_reorder");
                }
                LFaultKind::AckDup { us } => {
                    self.out.fault("ack_dup");
                    self.push(now + plan.owd_us[1] + us, Ev::AckArrive { ack: ack.clone() });
                }
                _ => {}
            }
        }
        self.push(now + plan.owd_us[1] + extra, Ev::AckArrive { ack });
    }

    // -----------------------------------------------------------------------------------
    // sender: ACK processing (order of manager.rs::process_acks)

    fn on_ack_frame(&mut self, ack: AckF) {
        let six = ack.space;
        if self.spaces[six].discarded {
            return;
        }
        let now_ts = ts(self.now);
        let id = self.spaces[six].id;
        let pn_of = |v: u64| id.new_packet_number(VarInt::new(v).unwrap());
        // 1. process_ack_range
        let mut newly: Vec<(u64, SentPacketInfo<CC::PacketInfo>)> = vec![];
        let mut includes_eliciting = false;
        for (lo, hi) in &ack.ranges {
            let range = PacketNumberRange::new(pn_of(*lo), pn_of(*hi));
            let removed: Vec<_> = self.spaces[six].sent.remove_range(range).collect();
            let mut prev: Option<u64> = None;
            for (pn, info) in removed {
                let pnv = pn.as_u64();
                self.out.oracle_evals += 1;
                // C09 bookkeeping: every pn is resolved exactly once
                if pnv < *lo || pnv > *hi || prev.is_some_and(|p| pnv <= p) {
                    self.violate("C09", "sent_packets_remove_range_out_of_range", format!("remove_range({lo}..={hi}) yielded pn {pnv} after {prev:?}"));
                }
                prev = Some(pnv);
                let Some(meta) = self.spaces[six].unresolved.remove(&pnv) else {
                    self.violate("C09", "packet_resolved_twice", format!("sp{six} pn={pnv} acknowledged but it is not outstanding (already acked, lost or discarded)"));
                    return;
                };
                if meta.bytes as u16 != info.sent_bytes || ts(meta.t_sent) != info.time_sent {
                    self.violate("C09", "sent_packet_info_corrupted", format!("sp{six} pn={pnv}: stored ({}, {:?}) != inserted ({}, {}us)", info.sent_bytes, info.time_sent, meta.bytes, meta.t_sent));
                }
                self.spaces[six].acked.insert(pnv);
                self.spaces[six].resolved += 1;
                self.acked_packets += 1;
                includes_eliciting |= meta.eliciting;
                if meta.bytes > 1200 {
                    self.black_hole_counter = 0;
                }
                // mtu_controller.on_packet_ack: an acknowledged probe raises the MTU
                if meta.mode == Mode::MtuProbe && meta.bytes as u16 > self.mtu {
                    let new = meta.bytes as u16;
                    self.mtu = new;
                    self.out.fault("mtu_change");
                    self.out.probe("mtu_raised");
                    cc_call!(self, Call::Mtu, None, |cc, p, _r| cc.on_mtu_update(new, p));
                    self.log("mtu_update", |s| format!("mtu={new} cwnd={}", s.cc.congestion_window()));
                }
                newly.push((pnv, info));
            }
            // the shadow must not know of outstanding packets in an acked range that the map did
            // not return
            let leaked: Vec<u64> = self.spaces[six].unresolved.range(*lo..=*hi).map(|(k, _)| *k).collect();
            if !leaked.is_empty() {
                self.violate("C09", "acked_packet_not_removed", format!("sp{six} ack range {lo}..={hi}: outstanding packets {leaked:?} were not returned by SentPackets::remove_range"));
            }
        }
        let largest_newly = newly.iter().max_by_key(|(pn, _)| *pn).cloned();
        // 2. largest acked
        let frame_largest = pn_of(ack.largest);
        let new_largest = match self.spaces[six].largest_acked {
            Some(cur) if cur > frame_largest => false,
            _ => {
                self.spaces[six].largest_acked = Some(frame_largest);
                true
            }
        };
        self.log("ack", |s| {
            format!("sp{six} largest={} ranges={:?} delay={}us ce={} newly={} cwnd={} bif={}", ack.largest, &ack.ranges[..ack.ranges.len().min(4)], ack.ack_delay_us, ack.ce, newly.len(), s.cc.congestion_window(), s.cc.bytes_in_flight())
        });
        let Some((largest_newly_pn, largest_newly_info)) = largest_newly else {
            return;
        };
        // 3. update_congestion_control: RTT sample
        if largest_newly_pn == ack.largest && includes_eliciting {
            let t_sent = ts_us(largest_newly_info.time_sent);
            let sample = self.now - t_sent;
            let ack_delay = Duration::from_micros(ack.ack_delay_us);
            self.rtt.update_rtt(ack_delay, Duration::from_micros(sample), now_ts, self.handshake_confirmed, id);
            self.rtt_samples += 1;
            self.out.probe("rtt_sample");
            self.check_rtt(sample, ack.ack_delay_us, id);
            let rtt = self.rtt;
            cc_call!(self, Call::RttUpdate, None, |cc, p, _r| cc.on_rtt_update(largest_newly_info.time_sent, now_ts, &rtt, p));
        }
        // 4. process_new_acked_packets
        self.detect_and_remove_lost(six);
        // path.reset_pto_backoff()
        self.pto_backoff = 1;
        self.last_pto = None;
        self.update_pto_timer(six);
        if new_largest && self.plan.ecn {
            let base = self.spaces[six].ce_baseline;
            if ack.ce > base {
                let delta = ack.ce - base;
                self.out.probe("ecn_ce_reported");
                cc_call!(self, Call::Ecn, None, |cc, p, _r| cc.on_explicit_congestion(delta, now_ts, p));
                self.log("ecn_ce", |s| format!("delta={delta} cwnd={}", s.cc.congestion_window()));
            }
            self.spaces[six].ce_baseline = ack.ce.max(base);
        }
        let bytes: u64 = newly.iter().map(|(_, i)| i.sent_bytes as u64).sum();
        if bytes > 0 {
            self.sh_bif -= bytes;
            let rtt = self.rtt;
            let t_sent = ts_us(largest_newly_info.time_sent);
            cc_call!(self, Call::Ack { newest_t_sent: t_sent }, None, |cc, p, r| cc.on_ack(largest_newly_info.time_sent, bytes as usize, largest_newly_info.cc_packet_info, &rtt, r, now_ts, p));
        }
        self.check_books();
    }

    // -----------------------------------------------------------------------------------
    // loss detection (order of manager.rs::detect_and_remove_lost_packets)

    fn detect_and_remove_lost(&mut self, six: usize) {
        let now_ts = ts(self.now);
        self.spaces[six].loss_timer.cancel();
        let Some(largest_acked) = self.spaces[six].largest_acked else { return };
        let mut calc = persistent_congestion::Calculator::new(self.rtt.first_rtt_sample(), unsafe { path::Id::new(0) });
        let time_threshold = self.rtt.loss_time_threshold();
        let mut lost: Vec<u64> = vec![];
        let mut arm: Option<Timestamp> = None;
        for (pn, info) in self.spaces[six].sent.iter() {
            if pn > largest_acked {
                break;
            }
            match loss::detect(time_threshold, info.time_sent, loss::K_PACKET_THRESHOLD, pn, largest_acked, now_ts) {
                loss::Outcome::Lost => {
                    lost.push(pn.as_u64());
                    calc.on_lost_packet(pn, info);
                }
                loss::Outcome::NotLostYet { lost_time } => {
                    arm = Some(lost_time);
                    break;
                }
            }
        }
        if let Some(t) = arm {
            self.spaces[six].loss_timer.set(t);
            self.spaces[six].pto.cancel();
            self.out.oracle_evals += 1;
            // C09: the timer asked for must be in the future (else the packet was lost already)
            if self.spaces[six].loss_timer.is_expired(now_ts) {
                self.violate("C09", "loss_timer_armed_in_the_past", format!("sp{six}: NotLostYet with lost_time {t:?} already elapsed"));
            }
        }
        let pc_duration = calc.persistent_congestion_duration();
        if lost.is_empty() {
            return;
        }
        // C09 oracle: every loss declaration satisfies RFC 9002 6.1 (shadow state only)
        self.check_losses(six, &lost, largest_acked.as_u64());
        let pc_threshold = self.rtt.persistent_congestion_threshold();
        let persistent = pc_duration > pc_threshold;
        if persistent {
            self.check_persistent(six, &lost, pc_duration);
        }
        let id = self.spaces[six].id;
        let range = PacketNumberRange::new(id.new_packet_number(VarInt::new(lost[0]).unwrap()), id.new_packet_number(VarInt::new(*lost.last().unwrap()).unwrap()));
        let removed: Vec<_> = self.spaces[six].sent.remove_range(range).collect();
        let mut prev: Option<u64> = None;
        for (pn, info) in removed {
            let pnv = pn.as_u64();
            let Some(meta) = self.spaces[six].unresolved.remove(&pnv) else {
                self.violate("C09", "packet_resolved_twice", format!("sp{six} pn={pnv} declared lost but it is not outstanding"));
                return;
            };
            if !lost.contains(&pnv) {
                self.violate("C09", "lost_range_removed_undetected_packet", format!("sp{six} pn={pnv} removed as lost without a loss::detect verdict"));
            }
            self.spaces[six].resolved += 1;
            self.lost_packets += 1;
            let new_burst = prev.is_none_or(|p| pnv != p + 1);
            if meta.mode == Mode::MtuProbe {
                self.sh_bif -= meta.bytes as u64;
                self.out.fault("discard");
                self.out.probe("mtu_probe_lost_discarded");
                cc_call!(self, Call::Discard, None, |cc, p, _r| cc.on_packet_discarded(info.sent_bytes as usize, p));
                self.log("lost_mtu_probe", |_| format!("sp{six} pn={pnv}"));
            } else if info.sent_bytes > 0 {
                self.sh_bif -= meta.bytes as u64;
                cc_call!(self, Call::Lost { persistent }, Some(meta.t_sent), |cc, p, r| cc.on_packet_lost(info.sent_bytes as u32, info.cc_packet_info, persistent, new_burst, r, now_ts, p));
                self.log("lost", |s| format!("sp{six} pn={pnv} bytes={} sent_at={}us persistent={persistent} cwnd={} bif={}", meta.bytes, meta.t_sent, s.cc.congestion_window(), s.cc.bytes_in_flight()));
                // retransmit
                if six == 1 {
                    self.backlog += meta.bytes as u64;
                }
            } else {
                self.log("lost_ackonly", |_| format!("sp{six} pn={pnv}"));
            }
            if persistent {
                self.rtt.on_persistent_congestion();
                self.sh_rtt.on_persistent_congestion();
            }
            // mtu_controller.on_packet_loss: black hole detection
            if six == 1 && meta.mode != Mode::MtuProbe && meta.bytes > 1200 && meta.bytes <= self.mtu as u32 {
                if new_burst {
                    self.black_hole_counter += 1;
                }
                if self.black_hole_counter > 3 && self.mtu > 1200 {
                    self.black_hole_counter = 0;
                    self.mtu = 1200;
                    self.out.fault("mtu_change");
                    self.out.probe("mtu_lowered_black_hole");
                    cc_call!(self, Call::Mtu, None, |cc, p, _r| cc.on_mtu_update(1200, p));
                    self.log("mtu_update", |s| format!("mtu=1200 cwnd={}", s.cc.congestion_window()));
                }
            }
            prev = Some(pnv);
            if self.stop {
                return;
            }
        }
    }

    // -----------------------------------------------------------------------------------
    // timers (manager.rs::update_pto_timer / on_timeout)

    fn update_pto_timer(&mut self, six: usize) {
        let plan_backoff = self.pto_backoff;
        let confirmed = self.handshake_confirmed;
        let period = self.rtt.pto_period(plan_backoff, self.spaces[six].id);
        let sp = &mut self.spaces[six];
        if sp.loss_timer.is_armed() {
            sp.pto.cancel();
            return;
        }
        if sp.id.is_application_data() && !confirmed {
            sp.pto.cancel();
            return;
        }
        let eliciting_in_flight = sp.unresolved.values().any(|m| m.eliciting);
        if !eliciting_in_flight {
            sp.pto.cancel();
            return;
        }
        let base = sp.time_of_last_ack_eliciting.expect("ack-eliciting packet in flight");
        sp.pto.update(base, period);
        let armed = sp.pto.next_expiration();
        self.check_pto(six, base, period, armed);
    }

    fn sync_sender_timer(&mut self) {
        let mut next: Option<u64> = None;
        for sp in &self.spaces {
            if sp.discarded {
                continue;
            }
            for t in [sp.loss_timer.next_expiration(), sp.pto.next_expiration()].into_iter().flatten() {
                let t = ts_us(t);
                next = Some(next.map_or(t, |n: u64| n.min(t)));
            }
        }
        if let Some(t) = next {
            if self.timer_at.is_none_or(|cur| t < cur || cur < self.now) {
                self.timer_at = Some(t);
                self.push(t, Ev::SenderTimer);
            }
        }
    }

    fn on_sender_timer(&mut self) {
        self.timer_at = None;
        let now_ts = ts(self.now);
        for six in 0..2 {
            if self.spaces[six].discarded {
                continue;
            }
            if self.spaces[six].loss_timer.is_armed() {
                if self.spaces[six].loss_timer.poll_expiration(now_ts).is_ready() {
                    self.timer_expiries += 1;
                    self.out.probe("loss_timer_expired");
                    self.log("loss_timer", |_| format!("sp{six}"));
                    let before = self.lost_packets;
                    self.detect_and_remove_lost(six);
                    if self.lost_packets == before {
                        self.out.observe("loss_timer_expiry_without_loss");
                    }
                    self.update_pto_timer(six);
                }
            } else {
                let in_flight = !self.spaces[six].sent.is_empty();
                let unresolved_before = self.spaces[six].unresolved.len();
                let armed_at = self.spaces[six].pto.next_expiration();
                if let Poll::Ready(()) = self.spaces[six].pto.on_timeout(in_flight, now_ts) {
                    self.timer_expiries += 1;
                    self.out.probe("pto_expired");
                    self.out.oracle_evals += 1;
                    // C09: a PTO expiry fires no earlier than 1 ms (timer granularity) before
                    // its deadline and marks nothing lost
                    if armed_at.is_none_or(|t| ts_us(t) >= self.now + 1000) {
                        self.violate("C09", "pto_fired_early", format!("sp{six}: Pto::on_timeout ready at {}us, armed for {armed_at:?}", self.now));
                    }
                    let n = self.spaces[six].pto.transmissions();
                    if n != if in_flight { 2 } else { 1 } {
                        self.violate("C09", "pto_probe_count", format!("sp{six}: {n} probe transmissions requested, packets in flight: {in_flight}"));
                    }
                    // consecutive expiries: the period doubles (path.pto_backoff, transport)
                    let period = self.rtt.pto_period(self.pto_backoff, self.spaces[six].id).as_micros() as u64;
                    if let Some((prev_period, prev_backoff, prev_space)) = self.last_pto {
                        self.out.probe("pto_consecutive");
                        // same space only: the application space adds max_ack_delay
                        if prev_space == six && self.pto_backoff == prev_backoff * 2 && period.abs_diff(prev_period * 2) > 2 {
                            self.violate("C09", "pto_not_doubled", format!("sp{six}: consecutive PTO periods {prev_period}us -> {period}us with backoff {prev_backoff} -> {}", self.pto_backoff));
                        }
                    }
                    self.last_pto = Some((period, self.pto_backoff, six));
                    self.pto_backoff = (self.pto_backoff * 2).min(self.plan.max_pto_backoff);
                    self.log("pto", |s| format!("sp{six} backoff->{} probes={n}", s.pto_backoff));
                    self.update_pto_timer(six);
                    // probes are not blocked by the congestion controller (RFC 9002 7.5)
                    for _ in 0..n {
                        let size = if six == 1 { self.next_size().max(40) } else { self.mtu as u32 };
                        if six == 1 {
                            self.backlog = self.backlog.saturating_sub(size as u64);
                        }
                        let more = self.backlog > 0;
                        self.send_packet(six, size, true, Mode::PtoProbe, more);
                        self.spaces[six].pto.on_transmit_once();
                    }
                    if self.spaces[six].unresolved.len() < unresolved_before {
                        self.violate("C09", "pto_marked_packets_lost", format!("sp{six}: packets resolved by a PTO expiry"));
                    }
                }
            }
        }
        self.after_transmit();
        self.check_books();
    }

    fn hs_discard(&mut self) {
        if self.spaces[0].discarded {
            return;
        }
        // on_packet_number_space_discarded
        let mut bytes = 0usize;
        for (_, info) in self.spaces[0].sent.iter() {
            bytes += info.sent_bytes as usize;
        }
        let n = self.spaces[0].unresolved.len();
        let sh: u64 = self.spaces[0].unresolved.values().map(|m| m.bytes as u64).sum();
        if sh != bytes as u64 {
            self.violate("C09", "discard_sum_mismatch", format!("handshake space holds {bytes} bytes, outstanding {sh}"));
        }
        self.sh_bif -= sh;
        if n > 0 {
            self.out.fault("discard");
            self.out.probe("space_discarded_with_packets_outstanding");
        }
        cc_call!(self, Call::Discard, None, |cc, p, _r| cc.on_packet_discarded(bytes, p));
        let sp = &mut self.spaces[0];
        sp.resolved += n as u64;
        sp.unresolved.clear();
        sp.sent.clear();
        sp.discarded = true;
        sp.loss_timer.cancel();
        sp.pto.cancel();
        self.handshake_confirmed = true;
        self.log("space_discard", |_| format!("packets={n} bytes={bytes}"));
        self.update_pto_timer(1);
        self.sync_sender_timer();
        self.check_books();
    }

    // -----------------------------------------------------------------------------------
    // C09 oracles

    fn check_rtt(&mut self, sample_us: u64, ack_delay_us: u64, space: PacketNumberSpace) {
        self.out.oracle_evals += 1;
        let r = self.rtt;
        let verdict = self.sh_rtt.on_sample(self.now, sample_us, ack_delay_us, self.handshake_confirmed, space.is_initial(), (r.latest_rtt(), r.min_rtt(), r.smoothed_rtt(), r.rttvar()));
        if verdict.equality_edge {
            self.out.observe("rtt_ack_delay_equality_edge_not_subtracted");
        }
        if let Some(msg) = verdict.mismatch {
            self.violate("C09", "rtt_estimator_differs_from_rfc9002", msg);
        }
        if let Some(msg) = verdict.range {
            self.violate("C09", "rtt_outside_sample_range", msg);
        }
    }

    fn check_pto(&mut self, six: usize, base: Timestamp, period: Duration, armed: Option<Timestamp>) {
        self.out.oracle_evals += 1;
        let space = self.spaces[six].id;
        let p = period.as_micros() as u64;
        if p < 1000 {
            self.violate("C09", "pto_below_granularity", format!("pto_period={p}us"));
        }
        let want = self.sh_rtt.pto_us(space.is_application_data()) * self.pto_backoff as u64;
        let want = want.max(1000);
        let tol = 8 * self.pto_backoff as u64;
        if p.abs_diff(want) > tol {
            self.violate(
                "C09",
                "pto_period_differs_from_rfc9002",
                format!("sp{six} backoff={}: RttEstimator::pto_period={p}us, RFC 9002 6.2.1 from shadow state={want}us ({:?})", self.pto_backoff, self.sh_rtt),
            );
        }
        // linear in the backoff: doubling the backoff doubles the period
        let p1 = self.rtt.pto_period(1, space).as_micros() as u64;
        let p2 = self.rtt.pto_period(2, space).as_micros() as u64;
        if p2 != 2 * p1 {
            self.violate("C09", "pto_backoff_not_doubling", format!("pto_period(1)={p1}us pto_period(2)={p2}us"));
        }
        if armed != Some(base + period) {
            self.violate("C09", "pto_timer_not_armed_at_base_plus_period", format!("armed {armed:?}, base {base:?} + {period:?}"));
        }
    }

    fn check_losses(&mut self, six: usize, lost: &[u64], largest_acked: u64) {
        let thr_ns = self.sh_rtt.loss_delay_ns();
        let now = self.now;
        for pnv in lost {
            self.out.oracle_evals += 1;
            let Some(meta) = self.spaces[six].unresolved.get(pnv).copied() else { continue };
            // (a) a later-sent packet was acknowledged
            let later_acked = self.spaces[six].acked.range(pnv + 1..).next().is_some();
            if !later_acked || largest_acked <= *pnv || !self.spaces[six].acked.contains(&largest_acked) {
                self.violate("C09", "lost_without_later_ack", format!("sp{six} pn={pnv} declared lost, largest_acked={largest_acked}, later packet acknowledged: {later_acked}"));
                return;
            }
            // (b) packet threshold or time threshold (RFC 9002 6.1.1 / 6.1.2)
            let by_packets = largest_acked - pnv >= 3;
            let age_ns = (now - meta.t_sent) * 1000;
            let by_time = age_ns >= thr_ns;
            // exactly the tolerance of Timestamp::has_elapsed (deadlines up to 1 ms in the future
            // count as elapsed); 2 us more for timestamp truncation and shadow rounding
            let inside_has_elapsed_tolerance = age_ns + 1_002_000 > thr_ns;
            if by_packets {
                self.out.probe("lost_by_packet_threshold");
            } else if by_time {
                self.out.probe("lost_by_time_threshold");
            } else if age_ns + 2_000 >= thr_ns {
                // rounding only: the loss timer is armed in whole microseconds, the shadow's
                // smoothed_rtt differs from the implementation's by nanoseconds
                self.out.probe("lost_by_time_threshold");
            } else if inside_has_elapsed_tolerance {
                // The property: "sent more than 9/8 of the current RTT estimate (never less than
                // 1 ms) earlier".  A must-not-happen-before threshold gets no granularity slack.
                self.out.probe("lost_by_time_threshold");
                self.out.probe("lost_before_time_threshold_inside_1ms_tolerance");
                if age_ns * 2 < thr_ns {
                    self.out.probe("lost_before_half_of_time_threshold");
                }
                self.violate_known_cause(
                    "C09",
                    "c09.lost_before_time_threshold",
                    "time_threshold_shortened_by_timer_granularity",
                    format!(
                        "sp{six} pn={pnv} sent {}us ago declared lost by loss::detect although largest_acked={largest_acked} (distance {} < kPacketThreshold 3) and the time threshold max(9/8*max(smoothed_rtt,latest_rtt), 1 ms) = {}us has not passed; it is inside the 1 ms tolerance of Timestamp::has_elapsed (recovery/loss.rs:47 -> time/timestamp.rs:138). smoothed_rtt={}us latest_rtt={}us",
                        now - meta.t_sent,
                        largest_acked - pnv,
                        thr_ns / 1000,
                        self.rtt.smoothed_rtt().as_micros(),
                        self.rtt.latest_rtt().as_micros()
                    ),
                );
            } else {
                self.violate(
                    "C09",
                    "lost_below_both_thresholds",
                    format!(
                        "sp{six} pn={pnv} sent {}us ago declared lost: largest_acked={largest_acked} (distance {} < 3) and time threshold 9/8*max(srtt,latest)={}us (shadow {:?}) not reached, and not explained by the 1 ms tolerance of Timestamp::has_elapsed either",
                        now - meta.t_sent,
                        largest_acked - pnv,
                        thr_ns / 1000,
                        self.sh_rtt
                    ),
                );
                return;
            }
        }
    }

    fn check_persistent(&mut self, six: usize, lost: &[u64], duration: Duration) {
        self.out.oracle_evals += 1;
        self.out.probe("persistent_congestion_declared");
        // RFC 9002 7.6.2: two ack-eliciting lost packets, nothing between them acknowledged,
        // both sent after the first RTT sample, send times further apart than the duration
        let d_us = duration.as_micros() as u64;
        let first_sample = self.sh_rtt.first_sample_at_us;
        let sp = &self.spaces[six];
        // maximal runs of lost packets with nothing acknowledged in between; inside a run the
        // widest pair is (first eligible ack-eliciting packet, last ack-eliciting packet)
        let mut ok = false;
        let mut run_first: Option<(u64, u64)> = None; // (pn, t_sent) of the first eligible packet
        let mut prev_pn: Option<u64> = None;
        for b in lost {
            let Some(mb) = sp.unresolved.get(b) else { continue };
            if let Some(p) = prev_pn {
                if sp.acked.range(p..=*b).next().is_some() {
                    run_first = None;
                }
            }
            prev_pn = Some(*b);
            if !mb.eliciting {
                continue;
            }
            match run_first {
                None => {
                    if first_sample.is_some_and(|f| mb.t_sent >= f) {
                        run_first = Some((*b, mb.t_sent));
                    }
                }
                Some((_, ta)) => {
                    if mb.t_sent - ta >= d_us {
                        ok = true;
                        break;
                    }
                }
            }
        }
        let want_ns = self.sh_rtt.persistent_duration_ns();
        // every term of the duration carries 1 ms timer-granularity slack, times
        // kPersistentCongestionThreshold = 3
        let within = (d_us * 1000) as i128 > want_ns as i128 - 9_000_000;
        if ok && (d_us * 1000) as u128 <= want_ns as u128 && within {
            self.out.observe("persistent_congestion_within_granularity_slack");
        }
        if !ok {
            self.violate("C09", "persistent_congestion_unsupported", format!("sp{six}: duration {d_us}us reported but no pair of ack-eliciting lost packets {lost:?} sent after the first RTT sample ({first_sample:?}) with nothing acknowledged between spans it"));
        } else if !within {
            self.violate("C09", "persistent_congestion_too_early", format!("sp{six}: duration {d_us}us <= RFC 9002 7.6.1 duration {}us (shadow {:?})", want_ns / 1000, self.sh_rtt));
        }
    }

    /// C09: SentPackets and the controller's counter agree with the outstanding set
    fn check_books(&mut self) {
        self.out.oracle_evals += 1;
        let mut total = 0u64;
        for six in 0..2 {
            if self.spaces[six].discarded {
                continue;
            }
            let mut n = 0;
            let mut bytes = 0u64;
            let mut bad = None;
            for (pn, info) in self.spaces[six].sent.iter() {
                n += 1;
                bytes += info.sent_bytes as u64;
                if !self.spaces[six].unresolved.contains_key(&pn.as_u64()) {
                    bad = Some(pn.as_u64());
                }
            }
            total += bytes;
            let un = self.spaces[six].unresolved.len();
            if n != un || bad.is_some() {
                self.violate("C09", "sent_packets_differs_from_outstanding", format!("sp{six}: SentPackets holds {n} packets ({bytes} bytes), outstanding {un}, stray {bad:?}"));
            }
        }
        let bif = self.cc.bytes_in_flight() as u64;
        if bif != total {
            self.violate("C09", "bytes_in_flight_not_sum_of_unresolved", format!("bytes_in_flight()={bif}, sum over SentPackets={total}"));
        }
    }

    // -----------------------------------------------------------------------------------

    fn timed_fault(&mut self, i: usize) {
        let f = self.plan.faults[i].clone();
        match f.kind {
            LFaultKind::Outage { us } => {
                self.outage_until = self.outage_until.max(self.now + us);
                self.out.fault("outage");
                self.log("outage", |_| format!("{us}us"));
            }
            LFaultKind::MtuProbe { size } => {
                if size > self.mtu {
                    self.mtu_probe_pending = Some(size);
                    self.schedule_tick(self.now);
                }
            }
            LFaultKind::MtuDrop { size } => {
                self.path_mtu = size as u32;
                self.out.fault("path_mtu_shrink");
                self.log("path_mtu", |_| format!("{size}"));
            }
            _ => {}
        }
    }

    pub fn run(mut self) -> Outcome {
        let cap_events = 400_000u64;
        while let Some(Reverse((at, _, ix))) = self.q.pop() {
            if self.stop {
                break;
            }
            let ev = self.evs[ix].take().unwrap();
            self.now = at;
            if self.out.events > cap_events {
                self.out.observe("event_cap_reached");
                break;
            }
            match ev {
                Ev::AppData { bytes } => {
                    if self.backlog == 0 {
                        self.out.probe("app_limited_period_ended");
                    }
                    self.backlog += bytes;
                    self.send_tick();
                    self.after_transmit();
                }
                Ev::SendTick => {
                    if self.tick_at.is_some_and(|t| t <= self.now) {
                        self.tick_at = None;
                    }
                    self.send_tick();
                    self.after_transmit();
                }
                Ev::Arrive { pkt, ce } => self.arrive(pkt, ce),
                Ev::RxAckTimer { space } => {
                    if self.rx[space].timer_at == Some(self.now) && self.rx[space].unacked_eliciting > 0 {
                        self.emit_ack(space);
                    }
                }
                Ev::AckArrive { ack } => {
                    self.on_ack_frame(ack);
                    if !self.stop {
                        self.send_tick();
                        self.after_transmit();
                    }
                }
                Ev::SenderTimer => {
                    self.on_sender_timer();
                    if !self.stop {
                        self.send_tick();
                        self.after_transmit();
                    }
                }
                Ev::HsDiscard => self.hs_discard(),
                Ev::Timed { fault } => self.timed_fault(fault),
                Ev::End => break,
            }
        }
        if !self.tail.is_empty() {
            self.out.first_events.push("...".into());
            let t: Vec<String> = self.tail.drain(..).collect();
            self.out.first_events.extend(t);
        }
        self.out.sim_us = self.now;
        self.out.kind_hash = simkit::mix64(self.kinds.0 ^ if CC::IS_CUBIC { 1 } else { 2 });
        if !CC::IS_CUBIC && self.out.probes.keys().any(|k| k.starts_with("bbr_probe_bw")) {
            self.out.probe("bbr_probe_bw_reached");
        }
        let congestion_events = self.reductions + self.out.probes.get("ecn_ce_reported").copied().unwrap_or(0) + self.lost_packets;
        self.out.nontrivial = if self.check == "C10" {
            // at least one loss or CE signal reached the controller, at least 50 packets were
            // acknowledged and (CUBIC) a recovery period was both entered and left
            congestion_events > 0 && self.acked_packets >= 50 && (!CC::IS_CUBIC || (self.reductions > 0 && self.recovery_exits > 0))
        } else {
            self.lost_packets > 0 && self.timer_expiries > 0 && self.rtt_samples >= 3
        };
        self.out
    }
}

pub fn run_plan(plan: &LPlan, check: &'static str) -> Outcome {
    if plan.cc == "bbr" {
        Sim::<BbrCongestionController>::new(plan, check).run()
    } else {
        Sim::<CubicCongestionController>::new(plan, check).run()
    }
}

// ---------------------------------------------------------------------------------------

pub struct LinkEngine {
    check: &'static str,
}

impl LinkEngine {
    pub fn c10() -> Self {
        LinkEngine { check: "C10" }
    }
    pub fn c09() -> Self {
        LinkEngine { check: "C09" }
    }
}

impl Engine for LinkEngine {
    type Plan = LPlan;

    fn property(&self) -> &'static str {
        self.check
    }

    fn gen(&self, seed: u64) -> LPlan {
        gen_plan(seed, self.check)
    }

    fn run(&self, plan: &LPlan) -> Outcome {
        run_plan(plan, self.check)
    }

    fn minimise(&self, plan: &LPlan, oracle: &str) -> LPlan {
        let check = self.check;
        let mut budget = 400u32;
        let mut fails = |p: &LPlan| {
            if budget == 0 {
                return false;
            }
            budget -= 1;
            run_plan(p, check).violations.iter().any(|v| v.oracle == oracle)
        };
        let mut cur = plan.clone();
        // 1. cut the run right after the violation
        let out = run_plan(&cur, check);
        if !out.violations.is_empty() {
            let mut p = cur.clone();
            p.duration_us = out.sim_us + 1;
            p.faults.retain(|f| f.on != 2 || f.at <= p.duration_us);
            if fails(&p) {
                cur = p;
            }
        }
        // 2. ddmin over the fault list
        let faults = cur.faults.clone();
        let base = cur.clone();
        let min = ddmin(&faults, |fs| {
            let mut p = base.clone();
            p.faults = fs.to_vec();
            fails(&p)
        });
        let mut p = cur.clone();
        p.faults = min;
        if fails(&p) {
            cur = p;
        }
        // 3. config towards defaults, one key at a time
        let tries: Vec<Box<dyn Fn(&mut LPlan)>> = vec![
            Box::new(|p| p.hs_packets = 0),
            Box::new(|p| p.pure_ack_permille = 0),
            Box::new(|p| p.small_packet_permille = 0),
            Box::new(|p| p.ecn_mark_queue_bytes = None),
            Box::new(|p| p.ack_every = 2),
            Box::new(|p| p.ack_ranges_max = 32),
            Box::new(|p| p.max_ack_delay_ms = 25),
            Box::new(|p| p.initial_rtt_us = 333_000),
            Box::new(|p| {
                if p.app.len() > 1 {
                    p.app.truncate(1)
                }
            }),
        ];
        for t in tries {
            let mut p = cur.clone();
            t(&mut p);
            if fails(&p) {
                cur = p;
            }
        }
        cur
    }

    fn sample(&self, plan: &LPlan, out: &Outcome) -> Value {
        let mut p = plan.clone();
        let nf = p.faults.len();
        p.faults.truncate(10);
        json!({"plan_head": p, "faults_total": nf, "events": out.events, "sim_us": out.sim_us, "probes": out.probes, "faults_fired": out.faults,
               "first_events": out.first_events.iter().take(16).collect::<Vec<_>>()})
    }

    fn rule(&self) -> &'static str {
        if self.check == "C10" {
            "plan = f(seed): controller (cubic|bbr), datagram size 1200..9000, path (BDP 2..400 datagrams, capacity 20 kB/s..2 GB/s, queue 0.1..8 BDP, one-way delays 20 us..150 ms, ECN marking), at most 6000 packets per run, receiver (ack every 1..32, delayed-ack timer, 1..64 ranges), application phases and an explicit fault list (loss bursts, CE, reorder, ack loss/reorder/dup, MTU probe, path-MTU shrink, outages, handshake-space discard) drawn from one simkit::Rng; execution consumes no randomness except the seeded random::Generator handed to the controller. non-trivial = a loss or CE signal reached the controller AND >= 50 packets were acknowledged AND (CUBIC only) a recovery period was entered and later left by an ack for a packet sent after its start; distinct = hash of the sequence of event kinds (send, send_pto_probe, ack, lost, ecn_ce, mtu_update, pto, loss_timer, drop_*, ...) + controller"
        } else {
            "same plan generator as C10 (both controllers, they only consume the calls); non-trivial = at least one packet was declared lost AND a loss-timer or PTO expiry happened AND >= 3 RTT samples were taken; distinct = hash of the sequence of event kinds + controller"
        }
    }

    fn components(&self) -> Value {
        json!({
            "real": ["recovery::CubicCongestionController", "recovery::bbr::BbrCongestionController (CongestionController trait)", "recovery::RttEstimator", "recovery::loss::detect + K_PACKET_THRESHOLD", "recovery::Pto", "recovery::SentPackets / packet::number::Map", "recovery::persistent_congestion::Calculator", "time::Timer / Timestamp"],
            "stub": ["recovery manager glue (s2n-quic-transport/src/recovery/manager.rs is private: its call order is transcribed in linksim/src/link.rs)", "mtu controller and ecn controller (simplified: probe ack raises, 4 loss bursts lower to 1200; CE delta reported when the largest acked advances)", "network, receiver, clock, application"]
        })
    }

    fn assumptions(&self) -> Vec<&'static str> {
        vec![
            "sampling, not proof",
            "the order of calls into the controller / estimator is my transcription of manager.rs (acked ranges -> MTU probe ack -> RTT sample -> loss detection -> PTO backoff reset -> ECN -> on_ack); a defect in the real glue is out of reach here and is the job of the E1 half",
            "must-happen-by timing oracles (PTO expiry, persistent-congestion duration terms) carry 1 ms timer-granularity slack (DESIGN section 5); the loss time threshold is a must-not-happen-before bound and gets only 2 us of rounding tolerance",
            "RFC 9002 MAY/SHOULD choices taken by s2n-quic are mirrored in the shadow and listed in shadow.rs (sample ignored before handshake confirmation when the adjusted value would undercut min_rtt; estimator re-initialised by the first sample after persistent congestion)",
            "s2n-quic-core is built with feature `testing` (checked counters panic instead of saturating); a panic inside the component is reported as a violation",
        ]
    }

    fn unreached(&self) -> Vec<&'static str> {
        if self.check == "C10" {
            vec![
                "Path::transmission_constraint / the transmission loop of s2n-quic-transport (the sender here applies the same gate `!is_congestion_limited() || requires_fast_retransmission()` itself; that the real connection obeys it is the E1 half)",
                "the real mtu::Controller and ecn::Controller decisions (only their effect on the congestion controller is simulated)",
                "datagram sizes above 9000 (BBR's minimum_window multiplies in u16: 4*max_datagram_size wraps from 16384 on, outside the property's range)",
            ]
        } else {
            vec![
                "recovery::Manager itself (private, s2n-quic-transport): ACK-frame validation, per-path bookkeeping, ACKs spanning several paths, Retry (on_retry_packet), the doubling of path.pto_backoff and that a PTO expiry leaves sent_packets untouched are transport code; the simulator's own transcription does these steps",
                "pto_period_with_jitter (jitter percentage 0 here)",
                "ack frame decoding / ack_delay exponent",
            ]
        }
    }

    fn required_probes(&self) -> Vec<&'static str> {
        if self.check == "C10" {
            vec!["entered_recovery", "recovery_exit", "persistent_congestion", "slow_start_exit_loss", "bbr_probe_bw_reached", "mtu_raised", "sent_app_limited_underutilized", "pto_expired", "ecn_ce_reported"]
        } else {
            vec!["rtt_sample", "lost_by_packet_threshold", "lost_by_time_threshold", "pto_expired", "pto_consecutive", "loss_timer_expired", "persistent_congestion_declared", "space_discarded_with_packets_outstanding"]
        }
    }

    fn quick_runs(&self) -> u64 {
        std::env::var("LINKSIM_QUICK_RUNS").ok().and_then(|s| s.parse().ok()).unwrap_or(if self.check == "C10" { 6_000 } else { 7_000 })
    }
}
