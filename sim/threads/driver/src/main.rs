//! `threads-check` — E4 driver (DESIGN 2.3 E4, 3.17, 3.19 "Concurrent").
//!
//!   threads-check check C17  [--tier quick|thorough] [--seed N] [--runs N] [--budget-s S]
//!                            [--threads T] [--replay FILE]
//!   threads-check check C19c [...]
//!
//! C17  = shuttle (RandomScheduler + PctScheduler depth 1..5, AddressSanitizer build, real
//!        s2n-quic-core sync code on shuttle primitives through the add-only hook) and
//!        Miri (std threads, seeded scheduler at preemption rates 0.01/0.05/0.2, weak memory).
//! C19c = Miri only (s2n-quic-dc receiver::State / sender::State on std primitives) plus a
//!        native brute-force linearizability check of every recorded history.
//!
//! exit 0 = held on everything explored (known findings are reported, not counted),
//!      1 = violation (`VIOLATION property=<id> replay=<path>`), 2 = harness error.

#[path = "../../scenarios/lin.rs"]
mod lin;

use serde_json::{json, Value};
use simkit::{hashn, CheckArgs, Violation};
use std::{
    collections::{BTreeMap, HashSet},
    path::{Path, PathBuf},
    process::Command,
    sync::{
        atomic::{AtomicBool, AtomicUsize, Ordering},
        Arc, Mutex,
    },
    time::{Duration, Instant},
};

const DIR: &str = "/verif/sim/threads";
const TARGET_SHUTTLE: &str = "/verif/sim/target/threads-shuttle";
const TARGET: &str = "/verif/sim/target/threads";
const TRIPLE: &str = "x86_64-unknown-linux-gnu";
const ASAN_RUSTFLAGS: &str = "--cfg aws_s2n_quic_verif -Zsanitizer=address -Zsanitizer-recover=address -Cforce-frame-pointers=yes";
const PLAIN_RUSTFLAGS: &str = "--cfg aws_s2n_quic_verif -Cforce-frame-pointers=yes";
const ASAN_OPTIONS: &str =
    "detect_leaks=0:halt_on_error=0:suppress_equal_pcs=0:symbolize=0:quarantine_size_mb=4:print_legend=0:allocator_may_return_null=1";
const RATES: [&str; 3] = ["0.01", "0.05", "0.2"];
const SCHEDULERS: [&str; 6] = ["random", "pct:1", "pct:2", "pct:3", "pct:4", "pct:5"];
const CHUNK: u64 = 2000;

fn harness_error(msg: &str) -> ! {
    eprintln!("HARNESS-ERROR: {msg}");
    std::process::exit(2);
}

// ---------------------------------------------------------------------------------------------
// work items and their results

#[derive(Clone, Debug)]
enum Item {
    Shuttle { scenario: String, sched: String, seed: u64, iters: u64 },
    Miri { krate: String, scenarios: Vec<String>, reps: u32, miri_seed: u64, rate: String, aliasing: bool },
}

#[derive(Clone, Debug, Default)]
struct Failure {
    oracle: String,
    sig: String,
    detail: String,
    /// everything needed to re-run exactly this failure
    replay: Value,
    /// not a verdict: aliasing-model complaint (triaged mode)
    triage_only: bool,
    harness: bool,
}

#[derive(Default)]
struct Outcome {
    /// (scenario, executions, nontrivial)
    counts: Vec<(String, u64, u64)>,
    /// (scenario, trace hash) of non-trivial executions
    hashes: Vec<(String, u64)>,
    samples: Vec<(String, String)>,
    failures: Vec<Failure>,
    /// unsymbolised asan reports: (failure index in `failures`, frame offsets)
    raw_asan: Vec<(usize, Vec<u64>)>,
    /// replay only: full text of the first AddressSanitizer report of each iteration
    asan_text: Vec<(u64, String)>,
    wall: f64,
}

fn family(scenario: &str) -> String {
    let parts: Vec<&str> = scenario.split('.').collect();
    if parts.len() == 3 && (parts[0] == "spsc" || parts[0] == "ring") {
        format!("{}.{}", parts[0], parts[2])
    } else {
        scenario.to_string()
    }
}

fn prop_prefix(property: &str) -> &'static str {
    if property == "C19c" {
        "c19"
    } else {
        "c17"
    }
}

/// `<a::b::C<T>>::f::{closure#0}` -> `a::b::C::f`
fn normalise_fn(name: &str) -> String {
    let mut out = String::new();
    let mut depth = 0i32;
    let chars: Vec<char> = name.trim().chars().collect();
    let mut i = 0;
    while i < chars.len() {
        let c = chars[i];
        match c {
            '<' => {
                // a leading `<` of `<Type>::method` / `<Type as Trait>::method` is transparent
                if out.is_empty() || out.ends_with("::") && depth == 0 && false {
                    // keep reading the type itself
                } else {
                    depth += 1;
                }
            }
            '>' => {
                if depth > 0 {
                    depth -= 1;
                }
            }
            _ if depth == 0 => out.push(c),
            _ => {}
        }
        i += 1;
    }
    // `Type as Trait::method` -> keep the type and the method
    if let Some(pos) = out.find(" as ") {
        let ty = out[..pos].to_string();
        let rest = &out[pos + 4..];
        let method = rest.rsplit("::").next().unwrap_or("");
        out = format!("{ty}::{method}");
    }
    let mut out = out.replace("::{closure#0}", "").replace("::{shim:vtable#0}", "");
    // `State::<T>::close` leaves `State::::close`
    while out.contains("::::") {
        out = out.replace("::::", "::");
    }
    out.trim_matches(':').trim().to_string()
}

/// A frame is code under test iff its *source file* lives in the s2n-quic checkout (reached
/// through the `repo` symlink) and is not the primitive shim. Returns the normalised function.
fn sig_from_frames(frames: &[(String, String)]) -> Option<String> {
    for (func, file) in frames {
        let in_repo = file.contains("repo/quic/") || file.contains("repo/dc/") || file.contains("repo/common/");
        if !in_repo || file.contains("sync/primitive.rs") {
            continue;
        }
        let mut n = normalise_fn(func);
        for prefix in ["s2n_quic_core::sync::", "s2n_quic_core::", "s2n_quic_platform::", "s2n_quic_dc::path::secret::", "s2n_quic_dc::"] {
            if let Some(r) = n.strip_prefix(prefix) {
                n = r.to_string();
                break;
            }
        }
        // files compiled into the harness by #[path]
        for marker in ["wakeup_queue::", "secret::sender::"] {
            if let Some(pos) = n.find(marker) {
                n = n[pos..].to_string();
            }
        }
        return Some(n);
    }
    None
}

/// Runs a child with a wall-clock watchdog. None = killed by the watchdog (harness error, never
/// a verdict: DESIGN 2.2 "Run bounds").
fn output_with_timeout(mut cmd: Command, limit: Duration) -> Option<std::process::Output> {
    use std::io::Read;
    use std::os::unix::process::CommandExt;
    use std::process::Stdio;
    // own process group: `cargo miri run` has the interpreter as a grandchild
    cmd.process_group(0);
    cmd.stdin(Stdio::null()).stdout(Stdio::piped()).stderr(Stdio::piped());
    let mut child = match cmd.spawn() {
        Ok(c) => c,
        Err(e) => harness_error(&format!("cannot spawn {cmd:?}: {e}")),
    };
    let mut so = child.stdout.take().unwrap();
    let mut se = child.stderr.take().unwrap();
    let t1 = std::thread::spawn(move || {
        let mut b = vec![];
        let _ = so.read_to_end(&mut b);
        b
    });
    let t2 = std::thread::spawn(move || {
        let mut b = vec![];
        let _ = se.read_to_end(&mut b);
        b
    });
    let t0 = Instant::now();
    let status = loop {
        match child.try_wait() {
            Ok(Some(st)) => break Some(st),
            Ok(None) => {
                if t0.elapsed() > limit {
                    let _ = Command::new("kill").args(["-KILL", "--", &format!("-{}", child.id())]).status();
                    let _ = child.kill();
                    let _ = child.wait();
                    break None;
                }
                std::thread::sleep(Duration::from_millis(20));
            }
            Err(_) => break None,
        }
    };
    let stdout = t1.join().unwrap_or_default();
    let stderr = t2.join().unwrap_or_default();
    status.map(|status| std::process::Output { status, stdout, stderr })
}

// ---------------------------------------------------------------------------------------------
// running one shuttle chunk

fn shuttle_bin() -> PathBuf {
    PathBuf::from(format!("{TARGET_SHUTTLE}/{TRIPLE}/release/threads-shuttle"))
}

fn run_shuttle(scenario: &str, sched: &str, seed: u64, iters: u64, scratch: &Path, tag: &str, asan: bool, full_stacks: bool) -> Outcome {
    let t0 = Instant::now();
    let hashes = scratch.join(format!("{tag}.hashes"));
    let persist = scratch.join(format!("{tag}.sched"));
    let _ = std::fs::create_dir_all(&persist);
    let mut cmd = Command::new(shuttle_bin());
    cmd.args(["run", "--scenario", scenario, "--sched", sched, "--seed", &seed.to_string(), "--iters", &iters.to_string(), "--samples", "1"])
        .arg("--hashes")
        .arg(&hashes)
        .arg("--persist-dir")
        .arg(&persist)
        .env_remove("SHUTTLE_RANDOM_SEED")
        .env("RUST_BACKTRACE", "0");
    if asan {
        let mut o = ASAN_OPTIONS.to_string();
        if full_stacks {
            // replay of a single failure: affordable to unwind every malloc/free properly
            o.push_str(":fast_unwind_on_malloc=0:malloc_context_size=40");
        }
        cmd.env("ASAN_OPTIONS", o);
    }
    let Some(out) = output_with_timeout(cmd, Duration::from_secs(300)) else {
        let mut res = Outcome::default();
        res.failures.push(Failure {
            oracle: "harness.watchdog".into(),
            sig: scenario.into(),
            detail: format!("shuttle chunk {scenario} {sched} seed {seed} exceeded 300 s and was killed"),
            harness: true,
            replay: json!({"engine": "shuttle", "scenario": scenario, "scheduler": sched, "chunk_seed": seed, "iteration": 0, "asan": asan}),
            ..Default::default()
        });
        return res;
    };
    let stdout = String::from_utf8_lossy(&out.stdout).to_string();
    let stderr = String::from_utf8_lossy(&out.stderr).to_string();
    let mut res = Outcome::default();
    let replay_of = |iter: u64| json!({"engine": "shuttle", "scenario": scenario, "scheduler": sched, "chunk_seed": seed, "iteration": iter, "asan": asan});
    let mut done = 0u64;
    let mut nontrivial = 0u64;
    let mut got_result = false;
    for l in stdout.lines() {
        if let Some(r) = l.strip_prefix("RESULT ") {
            got_result = true;
            for kv in r.split_whitespace() {
                if let Some(v) = kv.strip_prefix("iters=") {
                    done = v.parse().unwrap_or(0);
                }
                if let Some(v) = kv.strip_prefix("nontrivial=") {
                    nontrivial = v.parse().unwrap_or(0);
                }
            }
        } else if let Some(s) = l.strip_prefix("SAMPLE ") {
            res.samples.push((scenario.to_string(), s.to_string()));
        } else if let Some(f) = l.strip_prefix("FAIL ") {
            // FAIL iter=<i> msg=<...>
            let iter: u64 = f.split_whitespace().next().and_then(|x| x.strip_prefix("iter=")).and_then(|x| x.parse().ok()).unwrap_or(0);
            let msg = f.split_once("msg=").map(|x| x.1).unwrap_or("").to_string();
            let mut fl = classify_panic(&msg, scenario, "C17");
            fl.replay = replay_of(iter);
            // the schedule shuttle persisted for this panic, if any
            if let Ok(rd) = std::fs::read_dir(&persist) {
                if let Some(p) = rd.flatten().next() {
                    if let Ok(s) = std::fs::read_to_string(p.path()) {
                        fl.replay["shuttle_schedule"] = json!(s);
                    }
                }
            }
            res.failures.push(fl);
        }
    }
    // AddressSanitizer reports on stderr, each terminated by `@@ASAN-ITER <i>`
    let mut cur_kind: Option<String> = None;
    let mut cur_frames: Vec<u64> = vec![];
    let mut cur_head = String::new();
    let mut in_access_stack = false;
    let mut reports_in_iter: BTreeMap<u64, u32> = BTreeMap::new();
    let mut cur_text = String::new();
    for l in stderr.lines() {
        if full_stacks && !l.contains("Shadow byte") && !l.trim_start().starts_with("0x") && !l.trim_start().starts_with("=>") {
            cur_text.push_str(l);
            cur_text.push('\n');
        }
        if let Some(pos) = l.find("ERROR: AddressSanitizer: ") {
            cur_text = format!("{l}\n");
            let rest = &l[pos + "ERROR: AddressSanitizer: ".len()..];
            cur_kind = Some(rest.split_whitespace().next().unwrap_or("unknown").to_string());
            cur_head = rest.chars().take(160).collect();
            cur_frames.clear();
            in_access_stack = true;
        } else if cur_kind.is_some() && in_access_stack && l.trim_start().starts_with('#') {
            if let Some(off) = l.rsplit_once("+0x").and_then(|x| x.1.split(')').next()).and_then(|h| u64::from_str_radix(h, 16).ok()) {
                cur_frames.push(off);
            }
        } else if cur_kind.is_some() && in_access_stack && !cur_frames.is_empty() && l.trim().is_empty() {
            in_access_stack = false;
        } else if let Some(it) = l.strip_prefix("@@ASAN-ITER ") {
            let iter: u64 = it.trim().parse().unwrap_or(0);
            if let Some(kind) = cur_kind.take() {
                let n = reports_in_iter.entry(iter).or_insert(0);
                *n += 1;
                // the first report of an iteration is the cause; later ones are fall-out
                if *n == 1 {
                    if full_stacks {
                        res.asan_text.push((iter, std::mem::take(&mut cur_text)));
                    }
                    let idx = res.failures.len();
                    res.failures.push(Failure {
                        oracle: format!("c17.asan.{kind}"),
                        sig: String::new(),
                        detail: format!("AddressSanitizer: {cur_head} [{scenario} {sched} chunk_seed={seed} iteration={iter}]"),
                        replay: replay_of(iter),
                        ..Default::default()
                    });
                    res.raw_asan.push((idx, cur_frames.clone()));
                }
            }
        }
    }
    let died = !out.status.success() && out.status.code() != Some(3);
    if died || !got_result {
        // killed (ASan could not recover, SEGV, abort): the death callback names the iteration
        let iter = stderr
            .lines()
            .chain(stdout.lines())
            .filter_map(|l| l.strip_prefix("ASAN-DEATH iter="))
            .filter_map(|x| x.trim().parse::<u64>().ok())
            .last();
        let tail: String = stderr.lines().rev().take(12).collect::<Vec<_>>().into_iter().rev().collect::<Vec<_>>().join(" | ");
        let already = iter.map(|i| reports_in_iter.contains_key(&i)).unwrap_or(false);
        if !already {
            res.failures.push(Failure {
                oracle: "c17.crash".into(),
                sig: family(scenario),
                detail: format!("child died with {:?} in iteration {:?}: {}", out.status, iter, tail.chars().take(600).collect::<String>()),
                replay: replay_of(iter.unwrap_or(0)),
                harness: iter.is_none(),
                ..Default::default()
            });
        }
        if let Some(i) = iter {
            done = done.max(i);
        }
    }
    res.counts.push((scenario.to_string(), done, nontrivial));
    if let Ok(bytes) = std::fs::read(&hashes) {
        for c in bytes.chunks_exact(8) {
            res.hashes.push((scenario.to_string(), u64::from_le_bytes(c.try_into().unwrap())));
        }
    }
    let _ = std::fs::remove_file(&hashes);
    let _ = std::fs::remove_dir_all(&persist);
    res.wall = t0.elapsed().as_secs_f64();
    res
}

fn classify_panic(msg: &str, scenario: &str, property: &str) -> Failure {
    let p = prop_prefix(property);
    if let Some(pos) = msg.find("ORACLE|") {
        let f: Vec<&str> = msg[pos..].splitn(4, '|').collect();
        if f.len() == 4 {
            let sig = if f[2] == "?" { family(scenario) } else { f[2].to_string() };
            let oracle = if f[1] == "c17.no_progress" { format!("{p}.no_progress") } else { f[1].to_string() };
            return Failure { oracle, sig, detail: f[3].chars().take(500).collect(), ..Default::default() };
        }
    }
    if msg.contains("deadlock") {
        return Failure {
            oracle: format!("{p}.deadlock"),
            sig: family(scenario),
            detail: format!("a parked side was never released: {}", msg.chars().take(300).collect::<String>()),
            ..Default::default()
        };
    }
    if msg.contains("exceeded max_steps") || msg.contains("max_steps") {
        return Failure {
            oracle: format!("{p}.no_progress"),
            sig: family(scenario),
            detail: format!("no progress within the step bound: {}", msg.chars().take(300).collect::<String>()),
            ..Default::default()
        };
    }
    Failure { oracle: format!("{p}.panic"), sig: family(scenario), detail: msg.chars().take(500).collect(), ..Default::default() }
}

// ---------------------------------------------------------------------------------------------
// running one Miri process (one seed)

fn miri_flags(miri_seed: u64, rate: &str, aliasing: bool) -> String {
    let mut f = format!("-Zmiri-many-seeds={}..{} -Zmiri-preemption-rate={} -Zmiri-backtrace=full", miri_seed, miri_seed + 1, rate);
    if !aliasing {
        f.push_str(" -Zmiri-disable-stacked-borrows");
    }
    f
}

fn run_miri(property: &str, krate: &str, scenarios: &[String], reps: u32, miri_seed: u64, rate: &str, aliasing: bool) -> Outcome {
    let t0 = Instant::now();
    let flags = miri_flags(miri_seed, rate, aliasing);
    let mut cmd = Command::new("cargo");
    cmd.current_dir(DIR)
        .args(["+nightly", "miri", "run", "--offline", "-q", "-p", krate, "--", "run", "--scenarios", &scenarios.join(","), "--reps", &reps.to_string()])
        .env("MIRIFLAGS", &flags)
        .env("CARGO_NET_OFFLINE", "true")
        .env("CARGO_TARGET_DIR", TARGET)
        .env("RUST_BACKTRACE", "0");
    let Some(out) = output_with_timeout(cmd, Duration::from_secs(420)) else {
        let mut res = Outcome::default();
        res.failures.push(Failure {
            oracle: "harness.watchdog".into(),
            sig: krate.into(),
            detail: format!("Miri process (seed {miri_seed}, rate {rate}) exceeded 420 s and was killed"),
            harness: true,
            replay: json!({"engine": "miri", "crate": krate, "scenarios": scenarios, "reps": reps, "miri_seed": miri_seed, "preemption_rate": rate, "aliasing_model": aliasing, "miriflags": flags}),
            ..Default::default()
        });
        return res;
    };
    let stdout = String::from_utf8_lossy(&out.stdout).to_string();
    let stderr = String::from_utf8_lossy(&out.stderr).to_string();
    let mut res = Outcome::default();
    let replay = json!({"engine": "miri", "crate": krate, "scenarios": scenarios, "reps": reps, "miri_seed": miri_seed, "preemption_rate": rate,
        "aliasing_model": aliasing, "miriflags": flags});
    let mut per: BTreeMap<String, (u64, u64)> = BTreeMap::new();
    let mut executed = 0usize;
    let mut done = false;
    for l in stdout.lines() {
        if let Some(t) = l.strip_prefix("T|") {
            let f: Vec<&str> = t.splitn(5, '|').collect();
            if f.len() == 5 {
                executed += 1;
                let e = per.entry(f[0].to_string()).or_insert((0, 0));
                e.0 += 1;
                if f[1] == "1" {
                    e.1 += 1;
                    if let Ok(h) = u64::from_str_radix(f[2], 16) {
                        res.hashes.push((f[0].to_string(), h));
                    }
                }
                if res.samples.len() < 2 && f[1] == "1" {
                    res.samples.push((f[0].to_string(), format!("{} :: {}", f[3], f[4])));
                }
            }
        } else if let Some(h) = l.strip_prefix("H|") {
            // history of a dc scenario: linearizability against the sequential model
            if let Some((name, hist)) = h.split_once('|') {
                if let Some(ops) = lin::parse(hist) {
                    let ok = if name == "dc.receiver" {
                        lin::linearize(&ops, lin::ReceiverModel::default()).is_some()
                    } else {
                        lin::linearize(&ops, lin::SenderModel::default()).is_some()
                    };
                    if !ok {
                        res.failures.push(Failure {
                            oracle: format!("c19.{}.not_linearizable", name.trim_start_matches("dc.")),
                            sig: name.to_string(),
                            detail: format!("no linearisation of the recorded history matches the sequential model: {hist}"),
                            replay: replay.clone(),
                            ..Default::default()
                        });
                    }
                } else {
                    res.failures.push(Failure { oracle: "harness.history".into(), sig: name.into(), detail: format!("unparsable history {hist}"), harness: true, replay: replay.clone(), ..Default::default() });
                }
            }
        } else if l.starts_with("DONE ") {
            done = true;
        }
    }
    for (k, (n, nt)) in per {
        res.counts.push((k, n, nt));
    }
    if !out.status.success() || !done {
        // the scenario that was running = next one in the (scenario x reps) sequence
        let failing = scenarios.get(executed / reps.max(1) as usize).cloned().unwrap_or_else(|| "?".into());
        let mut f = classify_miri(&stderr, &failing, property, aliasing);
        f.replay = replay.clone();
        f.replay["failing_scenario"] = json!(failing);
        res.failures.push(f);
    }
    res.wall = t0.elapsed().as_secs_f64();
    res
}

fn classify_miri(stderr: &str, scenario: &str, property: &str, aliasing: bool) -> Failure {
    let p = prop_prefix(property);
    // an oracle panic inside the program
    if let Some(l) = stderr.lines().find(|l| l.contains("ORACLE|")) {
        return classify_panic(l, scenario, property);
    }
    let err = stderr.lines().find(|l| l.starts_with("error: ")).unwrap_or("").to_string();
    // backtrace frames: lines `   N: path::to::fn`
    let mut frames: Vec<(String, String)> = vec![];
    for l in stderr.lines() {
        let t = l.trim_start();
        if let Some((n, rest)) = t.split_once(": ") {
            if !n.is_empty() && n.chars().all(|c| c.is_ascii_digit()) {
                frames.push((rest.trim().to_string(), String::new()));
                continue;
            }
        }
        if let Some(at) = t.strip_prefix("at ") {
            if let Some(last) = frames.last_mut() {
                if last.1.is_empty() {
                    last.1 = at.to_string();
                }
            }
        }
    }
    let sig = sig_from_frames(&frames).unwrap_or_else(|| family(scenario));
    let detail: String = format!("{} [scenario {scenario}]", err.chars().take(400).collect::<String>());
    let low = err.to_lowercase();
    if low.contains("deadlock") {
        return Failure { oracle: format!("{p}.deadlock"), sig: family(scenario), detail: format!("a parked side was never released: {detail}"), ..Default::default() };
    }
    if err.is_empty() || low.contains("unsupported operation") || low.contains("could not compile") || low.contains("resource exhaustion") {
        let tail: String = stderr.lines().rev().take(8).collect::<Vec<_>>().into_iter().rev().collect::<Vec<_>>().join(" | ");
        return Failure { oracle: "harness.miri".into(), sig: family(scenario), detail: format!("{detail} :: {tail}"), harness: true, ..Default::default() };
    }
    let aliasing_complaint = aliasing && (low.contains("retag") || low.contains("stacked borrows") || low.contains("tree borrows") || low.contains("borrow stack") || low.contains("protector"));
    let kind = if low.contains("data race") {
        "data_race"
    } else if low.contains("has been freed") || low.contains("dangling") || low.contains("use-after-free") {
        "use_after_free"
    } else if low.contains("uninitialized") {
        "uninit"
    } else if low.contains("panicked") || low.contains("the main thread panicked") {
        "panic"
    } else {
        "ub"
    };
    if aliasing_complaint {
        return Failure { oracle: format!("{p}.miri-aliasing.{kind}"), sig, detail, triage_only: true, ..Default::default() };
    }
    Failure { oracle: format!("{p}.miri.{kind}"), sig, detail, ..Default::default() }
}

// ---------------------------------------------------------------------------------------------
// build

fn hook_present() -> bool {
    std::fs::read_to_string(format!("{DIR}/repo/quic/s2n-quic-core/src/sync/primitive.rs")).map(|s| s.contains("aws_s2n_quic_verif")).unwrap_or(false)
}

fn build_shuttle() -> bool {
    if !hook_present() {
        harness_error(&format!(
            "{DIR}/repo -> {:?} has no `aws_s2n_quic_verif` hook in quic/s2n-quic-core/src/sync/primitive.rs; apply {DIR}/hook.patch or point the symlink at a checkout that has it ({DIR}/set-repo.sh)",
            std::fs::read_link(format!("{DIR}/repo")).ok()
        ));
    }
    let log = format!("{TARGET_SHUTTLE}/build.log");
    let _ = std::fs::create_dir_all(TARGET_SHUTTLE);
    let run = |rustflags: &str, features: &[&str]| {
        let mut c = Command::new("cargo");
        c.current_dir(format!("{DIR}/shuttle")).args(["+nightly", "build", "--offline", "--release", "--target", TRIPLE]);
        if !features.is_empty() {
            c.arg("--features").arg(features.join(","));
        }
        c.env("RUSTFLAGS", rustflags).env("CARGO_NET_OFFLINE", "true").env("CARGO_TARGET_DIR", TARGET_SHUTTLE);
        let out = c.output().unwrap_or_else(|e| harness_error(&format!("cargo: {e}")));
        let _ = std::fs::write(&log, [&out.stdout[..], &out.stderr[..]].concat());
        out.status.success()
    };
    if run(ASAN_RUSTFLAGS, &["asan"]) {
        return true;
    }
    eprintln!("note: AddressSanitizer build failed (see {log}); falling back to a build without sanitizer");
    if run(PLAIN_RUSTFLAGS, &[]) {
        return false;
    }
    let tail = std::fs::read_to_string(&log).unwrap_or_default();
    eprintln!("{}", tail.lines().rev().take(40).collect::<Vec<_>>().into_iter().rev().collect::<Vec<_>>().join("\n"));
    harness_error("build of the shuttle runner failed");
}

fn build_miri(krate: &str) -> Vec<String> {
    let out = Command::new("cargo")
        .current_dir(DIR)
        .args(["+nightly", "miri", "run", "--offline", "-q", "-p", krate, "--", "list"])
        .env("MIRIFLAGS", "-Zmiri-disable-stacked-borrows")
        .env("CARGO_NET_OFFLINE", "true")
        .env("CARGO_TARGET_DIR", TARGET)
        .output()
        .unwrap_or_else(|e| harness_error(&format!("cargo miri: {e}")));
    if !out.status.success() {
        eprintln!("{}", String::from_utf8_lossy(&out.stderr).lines().rev().take(40).collect::<Vec<_>>().into_iter().rev().collect::<Vec<_>>().join("\n"));
        harness_error(&format!("build of {krate} under Miri failed"));
    }
    String::from_utf8_lossy(&out.stdout).lines().filter_map(|l| l.split_whitespace().next().map(|s| s.to_string())).collect()
}

/// Order of the scenarios inside one Miri process. A failing scenario ends the process, so the
/// scenarios that carry known findings go last (`*.both`: concurrent close, F3; then
/// `worker.two_senders`), and the others are rotated by the seed so that each of them is the
/// first one of some process.
fn miri_order(list: &[String], miri_seed: u64) -> Vec<String> {
    let rank = |s: &String| {
        if s == "worker.two_senders" {
            2
        } else if s.ends_with(".both") {
            1
        } else {
            0
        }
    };
    let mut first: Vec<String> = list.iter().filter(|s| rank(s) == 0).cloned().collect();
    if !first.is_empty() {
        let k = (miri_seed % first.len() as u64) as usize;
        first.rotate_left(k);
    }
    let mut rest: Vec<String> = list.iter().filter(|s| rank(s) != 0).cloned().collect();
    rest.sort_by_key(rank);
    first.extend(rest);
    first
}

fn shuttle_scenarios() -> Vec<String> {
    let out = Command::new(shuttle_bin()).arg("list").output().unwrap_or_else(|e| harness_error(&format!("{e}")));
    String::from_utf8_lossy(&out.stdout).lines().filter_map(|l| l.split_whitespace().next().map(|s| s.to_string())).collect()
}

/// one batch call of llvm-symbolizer for all distinct frame offsets of all reports
fn symbolize(offsets: &HashSet<u64>) -> BTreeMap<u64, Vec<(String, String)>> {
    let mut map = BTreeMap::new();
    if offsets.is_empty() {
        return map;
    }
    let list: Vec<u64> = offsets.iter().cloned().collect();
    let mut cmd = Command::new("llvm-symbolizer");
    cmd.arg(format!("--obj={}", shuttle_bin().display())).args(["--functions=linkage", "--inlines", "--demangle", "--output-style=LLVM"]);
    for o in &list {
        cmd.arg(format!("0x{o:x}"));
    }
    let Ok(out) = cmd.output() else {
        return map;
    };
    // blocks separated by empty lines; within a block: function line, file:line line, repeated per inlined frame
    let text = String::from_utf8_lossy(&out.stdout).to_string();
    let mut blocks = text.split("\n\n");
    for o in &list {
        let Some(b) = blocks.next() else { break };
        let lines: Vec<&str> = b.lines().collect();
        let fns: Vec<(String, String)> = lines.chunks(2).filter(|c| !c[0].trim().is_empty()).map(|c| (c[0].trim().to_string(), c.get(1).unwrap_or(&"").trim().to_string())).collect();
        map.insert(*o, fns);
    }
    map
}

// ---------------------------------------------------------------------------------------------

struct Totals {
    evaluations: u64,
    per_scenario: BTreeMap<String, BTreeMap<String, u64>>,
    distinct: HashSet<(String, u64)>,
    samples: Vec<Value>,
    failures: Vec<Failure>,
    raw_asan: Vec<(usize, Vec<u64>)>,
    shuttle_schedules: u64,
    shuttle_cpu_s: f64,
    miri_execs: u64,
    miri_procs: u64,
    miri_cpu_s: f64,
    skipped_items: u64,
}

fn add(t: &mut Totals, item: &Item, o: Outcome) {
    let engine = match item {
        Item::Shuttle { .. } => "shuttle",
        Item::Miri { aliasing: true, .. } => "miri_aliasing",
        Item::Miri { .. } => "miri",
    };
    for (sc, n, nt) in &o.counts {
        let e = t.per_scenario.entry(sc.clone()).or_default();
        *e.entry(format!("{engine}_executions")).or_insert(0) += n;
        *e.entry(format!("{engine}_nontrivial")).or_insert(0) += nt;
        t.evaluations += n;
        match item {
            Item::Shuttle { sched, .. } => {
                t.shuttle_schedules += n;
                *e.entry(format!("shuttle_{sched}")).or_insert(0) += n;
            }
            Item::Miri { .. } => t.miri_execs += n,
        }
    }
    match item {
        Item::Shuttle { .. } => t.shuttle_cpu_s += o.wall,
        Item::Miri { .. } => {
            t.miri_cpu_s += o.wall;
            t.miri_procs += 1;
        }
    }
    for (sc, h) in o.hashes {
        // shuttle explores sequentially consistent interleavings, Miri adds weak-memory outcomes:
        // a trace is the same case whichever engine produced it
        t.distinct.insert((sc, h));
    }
    for (sc, s) in o.samples {
        let have = t.samples.iter().filter(|v| v["scenario"] == json!(sc) && v["engine"] == json!(engine)).count();
        if have == 0 && t.samples.len() < 40 {
            t.samples.push(json!({"engine": engine, "scenario": sc, "case": s, "item": format!("{item:?}")}));
        }
    }
    let base = t.failures.len();
    for (idx, frames) in o.raw_asan {
        t.raw_asan.push((base + idx, frames));
    }
    t.failures.extend(o.failures);
}

fn run_items(items: Vec<Item>, property: &str, threads: usize, deadline: Instant, asan: bool, scratch: &Path, totals: &mut Totals) {
    let items = Arc::new(items);
    let next = Arc::new(AtomicUsize::new(0));
    let results: Arc<Mutex<Vec<(usize, Outcome)>>> = Arc::new(Mutex::new(vec![]));
    let stop = Arc::new(AtomicBool::new(false));
    let mut hs = vec![];
    for _w in 0..threads {
        let (items, next, results, stop, scratch, property) = (items.clone(), next.clone(), results.clone(), stop.clone(), scratch.to_path_buf(), property.to_string());
        hs.push(std::thread::spawn(move || loop {
            let i = next.fetch_add(1, Ordering::SeqCst);
            if i >= items.len() || stop.load(Ordering::SeqCst) {
                break;
            }
            // a Miri process takes 5-30 s: do not start one that cannot finish in time
            let margin = match &items[i] {
                Item::Miri { .. } => Duration::from_secs(25),
                Item::Shuttle { .. } => Duration::from_secs(3),
            };
            if Instant::now() + margin >= deadline {
                stop.store(true, Ordering::SeqCst);
                break;
            }
            let o = match &items[i] {
                Item::Shuttle { scenario, sched, seed, iters } => run_shuttle(scenario, sched, *seed, *iters, &scratch, &format!("c{i}"), asan, false),
                Item::Miri { krate, scenarios, reps, miri_seed, rate, aliasing } => run_miri(&property, krate, scenarios, *reps, *miri_seed, rate, *aliasing),
            };
            results.lock().unwrap().push((i, o));
        }));
    }
    for h in hs {
        let _ = h.join();
    }
    let mut rs = std::mem::take(&mut *results.lock().unwrap());
    // deterministic aggregation order
    rs.sort_by_key(|r| r.0);
    let ran = rs.len();
    for (i, o) in rs {
        add(totals, &items[i], o);
    }
    totals.skipped_items += (items.len() - ran) as u64;
}

fn to_violation(property: &str, f: &Failure) -> Violation {
    Violation { property: property.to_string(), oracle: f.oracle.clone(), detail: f.detail.clone(), sig: f.sig.clone() }
}

fn resolve_asan_sigs(t: &mut Totals) {
    let mut offs = HashSet::new();
    for (_, fr) in &t.raw_asan {
        for o in fr.iter().take(24) {
            offs.insert(*o);
        }
    }
    let sym = symbolize(&offs);
    for (idx, fr) in &t.raw_asan {
        let mut names: Vec<(String, String)> = vec![];
        for o in fr.iter().take(24) {
            if let Some(fns) = sym.get(o) {
                names.extend(fns.iter().cloned());
            }
        }
        let f = &mut t.failures[*idx];
        match sig_from_frames(&names) {
            Some(s) => {
                f.sig = s;
                let stack: Vec<String> = names.iter().map(|n| normalise_fn(&n.0)).filter(|n| n.contains("s2n_quic") || n.contains("scenarios::")).take(6).collect();
                f.detail = format!("{} stack: {}", f.detail, stack.join(" <- "));
            }
            None => {
                // a report with no frame of the code under test is the harness' or a dependency's problem
                f.sig = "no-frame-of-code-under-test".into();
                f.harness = true;
                f.detail = format!("{} stack: {}", f.detail, names.iter().take(8).map(|n| n.0.clone()).collect::<Vec<_>>().join(" <- "));
            }
        }
    }
}

fn main() {
    let args: Vec<String> = std::env::args().skip(1).collect();
    let Some(a) = simkit::parse_check_args(&args) else {
        eprintln!("usage: threads-check check <C17|C19c> [--tier quick|thorough] [--seed N] [--runs N] [--budget-s S] [--threads T] [--replay FILE]");
        std::process::exit(2);
    };
    if a.property != "C17" && a.property != "C19c" {
        harness_error(&format!("threads-check knows C17 and C19c, not {:?}", a.property));
    }
    if let Some(r) = a.replay.clone() {
        replay(&a, &r);
    }
    let t0 = Instant::now();
    let scratch = PathBuf::from(format!("{TARGET}/scratch-{}-{}", a.property, std::process::id()));
    let _ = std::fs::create_dir_all(&scratch);
    let budget = a.budget(130);
    let mut totals = Totals {
        evaluations: 0,
        per_scenario: BTreeMap::new(),
        distinct: HashSet::new(),
        samples: vec![],
        failures: vec![],
        raw_asan: vec![],
        shuttle_schedules: 0,
        shuttle_cpu_s: 0.0,
        miri_execs: 0,
        miri_procs: 0,
        miri_cpu_s: 0.0,
        skipped_items: 0,
    };
    let mut asan = false;
    let _ = asan;
    let mut extra = json!({});

    if a.property == "C17" {
        asan = build_shuttle();
        let miri_list = build_miri("threads-miri");
        let build_s = t0.elapsed().as_secs_f64();
        let run_start = Instant::now();
        let deadline = run_start + budget;
        let sh_list = shuttle_scenarios();
        if sh_list.is_empty() || miri_list.is_empty() {
            harness_error("scenario list is empty");
        }
        // ---- shuttle -------------------------------------------------------------------------
        let per_combo = a.runs.unwrap_or(if a.thorough() { 50_000 } else { 10_000 });
        let mk_round = |round: u64| -> Vec<Item> {
            let mut items = vec![];
            let chunks = per_combo.div_ceil(CHUNK);
            for c in 0..chunks {
                for (si, sc) in sh_list.iter().enumerate() {
                    for (ki, sched) in SCHEDULERS.iter().enumerate() {
                        let iters = CHUNK.min(per_combo - c * CHUNK);
                        let seed = hashn(a.seed, &[0x5c, round, si as u64, ki as u64, c]);
                        items.push(Item::Shuttle { scenario: sc.clone(), sched: sched.to_string(), seed, iters });
                    }
                }
            }
            items
        };
        // shuttle gets at most 40 % of the budget, Miri the rest
        let sh_deadline = run_start + budget.mul_f64(0.4);
        let mut rounds = 0u64;
        loop {
            run_items(mk_round(rounds), "C17", a.threads, sh_deadline, asan, &scratch, &mut totals);
            rounds += 1;
            // thorough: keep adding rounds with fresh chunk seeds while time remains
            if !a.thorough() || a.runs.is_some() || Instant::now() + Duration::from_secs(20) >= sh_deadline {
                break;
            }
        }
        let shuttle_wall = run_start.elapsed().as_secs_f64();
        // ---- Miri ----------------------------------------------------------------------------
        let miri_start = Instant::now();
        let seeds_per_rate: u64 = if a.thorough() { 342 } else { 22 };
        let reps = 3u32;
        let mut items = vec![];
        // aliasing-model mode (triaged, never a verdict): a small sample first
        let alias_seeds: u64 = if a.thorough() { 16 } else { 2 };
        for i in 0..seeds_per_rate.max(alias_seeds) {
            for (ri, rate) in RATES.iter().enumerate() {
                let miri_seed = hashn(a.seed, &[0x317, ri as u64]) % 1_000_000 + i;
                if i < seeds_per_rate {
                    items.push(Item::Miri { krate: "threads-miri".into(), scenarios: miri_order(&miri_list, miri_seed), reps, miri_seed, rate: rate.to_string(), aliasing: false });
                }
                if i < alias_seeds {
                    items.push(Item::Miri { krate: "threads-miri".into(), scenarios: miri_order(&miri_list, miri_seed), reps: 1, miri_seed, rate: rate.to_string(), aliasing: true });
                }
            }
        }
        let n_miri_items = items.len();
        run_items(items, "C17", a.threads, deadline, asan, &scratch, &mut totals);
        // thorough: more seeds while time remains
        let mut extra_seed = seeds_per_rate;
        while a.thorough() && Instant::now() + Duration::from_secs(30) < deadline {
            let mut items = vec![];
            for i in 0..16 {
                for (ri, rate) in RATES.iter().enumerate() {
                    let miri_seed = hashn(a.seed, &[0x317, ri as u64]) % 1_000_000 + extra_seed + i;
                    items.push(Item::Miri { krate: "threads-miri".into(), scenarios: miri_order(&miri_list, miri_seed), reps, miri_seed, rate: rate.to_string(), aliasing: false });
                }
            }
            extra_seed += 16;
            run_items(items, "C17", a.threads, deadline, asan, &scratch, &mut totals);
        }
        resolve_asan_sigs(&mut totals);
        extra = json!({
            "build_s": build_s,
            "shuttle": {
                "schedulers": SCHEDULERS, "pct_depths": [1,2,3,4,5], "schedules": totals.shuttle_schedules, "rounds": rounds,
                "schedules_per_scenario_and_scheduler_per_round": per_combo, "chunk": CHUNK,
                "wall_s": shuttle_wall, "child_process_seconds": totals.shuttle_cpu_s,
                "schedules_per_second_per_worker": if totals.shuttle_cpu_s > 0.0 { totals.shuttle_schedules as f64 / totals.shuttle_cpu_s } else { 0.0 },
                "address_sanitizer": asan,
                "rustflags": if asan { ASAN_RUSTFLAGS } else { PLAIN_RUSTFLAGS },
                "asan_options": if asan { ASAN_OPTIONS } else { "" },
                "scenarios": sh_list,
            },
            "miri": {
                "processes": totals.miri_procs, "planned_processes": n_miri_items, "executions": totals.miri_execs, "reps_per_scenario_per_seed": reps,
                "seeds_per_preemption_rate": seeds_per_rate.max(extra_seed), "preemption_rates": RATES,
                "flags": miri_flags(0, "<rate>", false).replace("0..1", "<seed>..<seed+1>"),
                "aliasing_mode_flags": miri_flags(0, "<rate>", true).replace("0..1", "<seed>..<seed+1>"),
                "aliasing_mode_seeds_per_rate": alias_seeds,
                "wall_s": miri_start.elapsed().as_secs_f64(), "process_seconds": totals.miri_cpu_s,
                "executions_per_second_per_worker": if totals.miri_cpu_s > 0.0 { totals.miri_execs as f64 / totals.miri_cpu_s } else { 0.0 },
                "scenarios": miri_list,
            },
            "components": {
                "real": ["s2n_quic_core::sync::{spsc,worker,atomic_waker,cursor} (source unchanged; under shuttle its atomics/Arc/AtomicWaker come from the cfg(aws_s2n_quic_verif) block of sync/primitive.rs)",
                         "s2n_quic_platform::socket::ring + message::simple (Miri)", "s2n-quic-transport/src/wakeup_queue.rs compiled verbatim via #[path] (Miri)"],
                "stub": ["AtomicWaker under shuttle = Mutex<Option<Waker>> (the hook); executors = shuttle::future::block_on / a 20-line park-based block_on; cursor.rs uses core atomics directly, so shuttle interleaves it only at API-call granularity"],
            },
        });
    } else {
        // ---- C19c ----------------------------------------------------------------------------
        let list = build_miri("threads-miri-dc");
        let build_s = t0.elapsed().as_secs_f64();
        let run_start = Instant::now();
        let deadline = run_start + budget;
        let seeds_per_rate: u64 = a.runs.unwrap_or(if a.thorough() { 342 } else { 16 });
        let reps = 12u32;
        let mut items = vec![];
        for i in 0..seeds_per_rate {
            for (ri, rate) in RATES.iter().enumerate() {
                let miri_seed = hashn(a.seed, &[0xc19, ri as u64]) % 1_000_000 + i;
                items.push(Item::Miri { krate: "threads-miri-dc".into(), scenarios: list.clone(), reps, miri_seed, rate: rate.to_string(), aliasing: false });
            }
        }
        run_items(items, "C19c", a.threads, deadline, false, &scratch, &mut totals);
        let mut extra_seed = seeds_per_rate;
        while a.thorough() && a.runs.is_none() && Instant::now() + Duration::from_secs(30) < deadline {
            let mut items = vec![];
            for i in 0..16 {
                for (ri, rate) in RATES.iter().enumerate() {
                    let miri_seed = hashn(a.seed, &[0xc19, ri as u64]) % 1_000_000 + extra_seed + i;
                    items.push(Item::Miri { krate: "threads-miri-dc".into(), scenarios: list.clone(), reps, miri_seed, rate: rate.to_string(), aliasing: false });
                }
            }
            extra_seed += 16;
            run_items(items, "C19c", a.threads, deadline, false, &scratch, &mut totals);
        }
        extra = json!({
            "build_s": build_s,
            "miri": {
                "processes": totals.miri_procs, "executions": totals.miri_execs, "reps_per_scenario_per_seed": reps,
                "seeds_per_preemption_rate": extra_seed, "preemption_rates": RATES,
                "flags": miri_flags(0, "<rate>", false).replace("0..1", "<seed>..<seed+1>"),
                "wall_s": run_start.elapsed().as_secs_f64(), "process_seconds": totals.miri_cpu_s,
                "executions_per_second_per_worker": if totals.miri_cpu_s > 0.0 { totals.miri_execs as f64 / totals.miri_cpu_s } else { 0.0 },
                "scenarios": list,
            },
            "linearizability": "every recorded history (<= 12 operations, invoke/return stamped with a global relaxed sequence counter) is searched for a linearisation against the sequential set+window model (receiver) / counter model (sender) by brute force in the native driver",
            "components": {
                "real": ["s2n_quic_dc::path::secret::receiver::State (crate as is)", "dc/s2n-quic-dc/src/path/secret/sender.rs compiled verbatim via #[path] (module is private, update_for_stale_key is pub(super))"],
                "stub": ["schedule::Secret, map::SizeOf, secret_control::TAG_LEN: the three items sender.rs names from its surroundings (never called by the scenarios)"],
            },
        });
    }
    let _ = std::fs::remove_dir_all(&scratch);

    // ---- verdict ---------------------------------------------------------------------------------
    let property = a.property.clone();
    let harness: Vec<&Failure> = totals.failures.iter().filter(|f| f.harness).collect();
    let triaged: Vec<&Failure> = totals.failures.iter().filter(|f| f.triage_only).collect();
    let mut triage_counts: BTreeMap<String, u64> = BTreeMap::new();
    for f in &triaged {
        *triage_counts.entry(format!("{} {}", f.oracle, f.sig)).or_insert(0) += 1;
    }
    for (k, n) in &triage_counts {
        println!("TRIAGE (aliasing model, not a verdict): {k} in {n} Miri processes");
    }
    let verdicts: Vec<(usize, &Failure)> = totals.failures.iter().enumerate().filter(|(_, f)| !f.harness && !f.triage_only).collect();
    let viols: Vec<(u64, Violation)> = verdicts.iter().map(|(i, f)| (*i as u64, to_violation(&property, f))).collect();
    let failures = &totals.failures;
    let seed = a.seed;
    let (exit, new_violations, known_seen) = simkit::triage(&property, &viols, |idx, v| {
        let f = &failures[idx as usize];
        let mut doc = f.replay.clone();
        doc["property"] = json!(property);
        doc["expect"] = json!({"oracle": v.oracle, "sig": v.sig});
        doc["detail"] = json!(v.detail);
        doc["check_seed"] = json!(seed);
        simkit::write_replay_doc(&property, &format!("{}-{}-{}", seed, v.oracle.replace(['.', ':', '/'], "_"), idx), &doc)
    });
    // replay files for known findings too (first instance of each), so that they can be re-established
    let known = simkit::load_known();
    let mut known_replays: BTreeMap<String, String> = BTreeMap::new();
    for (i, f) in &verdicts {
        let v = to_violation(&property, f);
        if simkit::is_known(&known, &v).is_some() {
            let key = format!("{} {}", v.oracle, v.sig);
            if !known_replays.contains_key(&key) {
                let mut doc = f.replay.clone();
                doc["property"] = json!(property);
                doc["expect"] = json!({"oracle": v.oracle, "sig": v.sig});
                doc["detail"] = json!(v.detail);
                doc["check_seed"] = json!(seed);
                let p = simkit::write_replay_doc(&property, &format!("known-{}-{}", v.oracle.replace(['.', ':', '/'], "_"), v.sig.replace([':', '.', '/', ' '], "_")), &doc);
                println!("known finding {key}: first instance {} ; replay={p}", f.detail.chars().take(200).collect::<String>());
                known_replays.insert(key, p);
            }
            let _ = i;
        }
    }
    for f in harness.iter().take(5) {
        eprintln!("HARNESS-ERROR: {} {} :: {}", f.oracle, f.sig, f.detail.chars().take(600).collect::<String>());
    }

    // which engine / scheduler / scenario produced which (oracle, sig): known findings included
    let mut failure_summary: BTreeMap<String, u64> = BTreeMap::new();
    for f in &totals.failures {
        let by = match f.replay["engine"].as_str() {
            Some("shuttle") => format!("shuttle {} {}", f.replay["scheduler"].as_str().unwrap_or("?"), f.replay["scenario"].as_str().unwrap_or("?")),
            _ => format!(
                "miri{} rate {} {}",
                if f.replay["aliasing_model"].as_bool() == Some(true) { "-aliasing" } else { "" },
                f.replay["preemption_rate"].as_str().unwrap_or("?"),
                f.replay["failing_scenario"].as_str().unwrap_or("?")
            ),
        };
        *failure_summary.entry(format!("{} | {} | {}", f.oracle, f.sig, by)).or_insert(0) += 1;
    }
    for (k, n) in &failure_summary {
        println!("seen {n:>6} x {k}");
    }

    // ---- evidence --------------------------------------------------------------------------------
    let wall = t0.elapsed().as_secs_f64();
    let mut distinct_by: BTreeMap<String, u64> = BTreeMap::new();
    for (sc, _) in &totals.distinct {
        *distinct_by.entry(sc.clone()).or_insert(0) += 1;
    }
    let mut per_scenario = json!({});
    for (sc, m) in &totals.per_scenario {
        let mut o = json!(m);
        o["distinct_nontrivial_traces"] = json!(distinct_by.get(sc).cloned().unwrap_or(0));
        per_scenario[sc] = o;
    }
    let run_s = (wall - extra["build_s"].as_f64().unwrap_or(0.0)).max(0.001);
    let mut coverage = json!({
        "evaluations": totals.evaluations,
        "distinct_nontrivial": totals.distinct.len(),
        "rule": "One evaluation = one complete execution of one scenario (2-3 threads, drawn parameters) under one seeded schedule: a shuttle schedule (RandomScheduler / PctScheduler depth 1-5; workload drawn from shuttle::rand) or one scenario execution inside a Miri process (seeded scheduler, preemption rate 0.01/0.05/0.2, weak-memory emulation). Each thread logs its observable events (push/got/full/empty/pending/closed/drop/wake, or invoke/return for C19c) stamped with a global sequence counter; the trace is the stamp-ordered merge. An execution is NON-TRIVIAL iff at least one thread ran into the other mid-flight: a producer found the queue full or observed the peer's close before finishing, a consumer found it empty, or a future returned Pending (the thread really parked) - for C19c: two operations of different threads overlap in time. distinct_nontrivial = number of distinct (scenario, trace hash) pairs among non-trivial executions, counted over both engines (set union of 64-bit FNV-style hashes of (thread, event, argument) sequences; repeated identical spin observations collapsed). Executions in which the threads ran back to back are counted in evaluations only.",
        "samples": totals.samples,
        "per_scenario": per_scenario,
        "executions_per_hour": (totals.evaluations as f64 / run_s * 3600.0) as u64,
        "known_findings_seen": known_seen,
        "known_finding_replays": known_replays,
        "aliasing_mode_complaints_triaged": triage_counts,
        "oracle_hits_by_engine_scheduler_scenario": failure_summary,
        "work_items_skipped_by_budget": totals.skipped_items,
        "harness_errors": harness.len(),
        "new_violations": new_violations,
    });
    for (k, v) in extra.as_object().unwrap() {
        coverage[k] = v.clone();
    }
    let assumptions: Vec<&str> = if property == "C17" {
        vec![
            "sampling of schedules, not proof; shuttle explores sequentially consistent interleavings only, weak-memory outcomes come from Miri's sampled emulation",
            "under shuttle AtomicWaker is a Mutex<Option<Waker>> stand-in (hook) - the atomic-waker crate itself runs only under Miri",
            "bounded scenarios: capacity 1-4, 0-3 batches, 2-3 threads",
            "wakeup_queue and sender.rs are compiled from the repository's source files via #[path], not through their crates",
        ]
    } else {
        vec![
            "sampling of schedules (Miri seeds), not proof",
            "sender.rs compiled verbatim outside its crate with three stub items; receiver::State through the real crate",
            "<= 3 threads x 4 operations per history",
        ]
    };
    let ok_evidence = totals.evaluations > 0 && totals.distinct.len() >= 2;
    simkit::write_evidence(&a, "exploration", coverage, &assumptions, wall, new_violations);
    println!(
        "{}: {} executions ({} shuttle schedules, {} Miri executions in {} processes), {} distinct non-trivial traces, {} new violations, known findings seen: {:?}, {:.1}s",
        property, totals.evaluations, totals.shuttle_schedules, totals.miri_execs, totals.miri_procs, totals.distinct.len(), new_violations, known_seen.keys().collect::<Vec<_>>(), wall
    );
    if exit == 0 && (!harness.is_empty() || !ok_evidence) {
        harness_error(&format!("{} harness-level failures, evaluations {}", harness.len(), totals.evaluations));
    }
    std::process::exit(exit);
}

// ---------------------------------------------------------------------------------------------
// replay

/// prints an AddressSanitizer report with its `(binary+0xoff)` frames resolved (functions incl.
/// inlined ones, source lines); only frames of the code under test and of the scenarios are kept
fn print_symbolised(report: &str) {
    let mut offs = HashSet::new();
    for l in report.lines() {
        if let Some(off) = l.rsplit_once("+0x").and_then(|x| x.1.split(')').next()).and_then(|h| u64::from_str_radix(h, 16).ok()) {
            offs.insert(off);
        }
    }
    let sym = symbolize(&offs);
    println!("---- AddressSanitizer report of the replayed iteration (frames of s2n-quic and of the scenario only) ----");
    for l in report.lines() {
        let t = l.trim_start();
        if t.starts_with('#') {
            if let Some(off) = l.rsplit_once("+0x").and_then(|x| x.1.split(')').next()).and_then(|h| u64::from_str_radix(h, 16).ok()) {
                for (f, file) in sym.get(&off).cloned().unwrap_or_default() {
                    if file.contains("repo/") || file.contains("scenarios/") {
                        println!("      {} at {}", normalise_fn(&f), file.rsplit_once("repo/").map(|x| x.1).unwrap_or(&file));
                    }
                }
            }
        } else if !t.is_empty() && !t.starts_with("SUMMARY") && !t.starts_with("==") || t.contains("ERROR: AddressSanitizer") {
            println!("  {}", t.chars().take(200).collect::<String>());
        }
    }
    println!("----");
}

fn replay(a: &CheckArgs, file: &str) -> ! {
    let doc: Value = std::fs::read_to_string(file).ok().and_then(|s| serde_json::from_str(&s).ok()).unwrap_or_else(|| harness_error(&format!("cannot read replay file {file}")));
    let property = doc["property"].as_str().unwrap_or(&a.property).to_string();
    let want_oracle = doc["expect"]["oracle"].as_str().unwrap_or("").to_string();
    let want_sig = doc["expect"]["sig"].as_str().unwrap_or("").to_string();
    let scratch = PathBuf::from(format!("{TARGET}/scratch-replay-{}", std::process::id()));
    let _ = std::fs::create_dir_all(&scratch);
    let mut totals = Totals {
        evaluations: 0,
        per_scenario: BTreeMap::new(),
        distinct: HashSet::new(),
        samples: vec![],
        failures: vec![],
        raw_asan: vec![],
        shuttle_schedules: 0,
        shuttle_cpu_s: 0.0,
        miri_execs: 0,
        miri_procs: 0,
        miri_cpu_s: 0.0,
        skipped_items: 0,
    };
    let mut target_iter = None;
    match doc["engine"].as_str() {
        Some("shuttle") => {
            let asan = build_shuttle();
            if asan != doc["asan"].as_bool().unwrap_or(asan) {
                eprintln!("note: the replay file was recorded with asan={} and this build has asan={asan}", doc["asan"]);
            }
            let scenario = doc["scenario"].as_str().unwrap_or("").to_string();
            let sched = doc["scheduler"].as_str().unwrap_or("random").to_string();
            let seed = doc["chunk_seed"].as_u64().unwrap_or(0);
            let iter = doc["iteration"].as_u64().unwrap_or(0);
            target_iter = Some(iter);
            println!("replaying shuttle {scenario} {sched} chunk_seed={seed}: iterations 0..={iter} (the schedule of iteration {iter} is re-derived from the seed)");
            let mut o = run_shuttle(&scenario, &sched, seed, iter + 1, &scratch, "replay", asan, true);
            if let Some((_, text)) = std::mem::take(&mut o.asan_text).into_iter().find(|(i, _)| *i == iter) {
                print_symbolised(&text);
            }
            add(&mut totals, &Item::Shuttle { scenario, sched, seed, iters: iter + 1 }, o);
            resolve_asan_sigs(&mut totals);
        }
        Some("miri") => {
            let krate = doc["crate"].as_str().unwrap_or("threads-miri").to_string();
            build_miri(&krate);
            let scenarios: Vec<String> = doc["scenarios"].as_array().map(|v| v.iter().filter_map(|x| x.as_str().map(|s| s.to_string())).collect()).unwrap_or_default();
            let reps = doc["reps"].as_u64().unwrap_or(1) as u32;
            let miri_seed = doc["miri_seed"].as_u64().unwrap_or(0);
            let rate = doc["preemption_rate"].as_str().unwrap_or("0.05").to_string();
            let aliasing = doc["aliasing_model"].as_bool().unwrap_or(false);
            println!("replaying Miri {krate} seed={miri_seed} rate={rate} flags: {}", miri_flags(miri_seed, &rate, aliasing));
            let o = run_miri(&property, &krate, &scenarios, reps, miri_seed, &rate, aliasing);
            add(&mut totals, &Item::Miri { krate, scenarios, reps, miri_seed, rate, aliasing }, o);
        }
        _ => harness_error("replay file has no known engine"),
    }
    let _ = std::fs::remove_dir_all(&scratch);
    let hit = totals.failures.iter().find(|f| {
        f.oracle == want_oracle && f.sig == want_sig && target_iter.map(|i| f.replay["iteration"].as_u64() == Some(i)).unwrap_or(true)
    });
    match hit {
        Some(f) => {
            println!("REPRODUCED: {} {} :: {}", f.oracle, f.sig, f.detail);
            let v = to_violation(&property, f);
            if let Some(k) = simkit::is_known(&simkit::load_known(), &v) {
                println!("KNOWN-FINDING: property={property} {} [oracle {}, replayed]", k.text, v.oracle);
                std::process::exit(0);
            }
            println!("VIOLATION property={property} replay={file}");
            std::process::exit(1);
        }
        None => {
            for f in &totals.failures {
                eprintln!("saw instead: {} {} iteration {} :: {}", f.oracle, f.sig, f.replay["iteration"], f.detail.chars().take(300).collect::<String>());
            }
            harness_error(&format!("replay did not reproduce ({want_oracle} {want_sig})"));
        }
    }
}
