//! quiche logs through the `log` crate; in show/replay mode the lines are captured (with the
//! virtual time) into the run's note list so that both sides' views can be read side by side.

use crate::run::SharedApp;
use std::cell::RefCell;

thread_local! {
    static SINK: RefCell<Option<SharedApp>> = const { RefCell::new(None) };
}

struct Logger;

impl log::Log for Logger {
    fn enabled(&self, m: &log::Metadata) -> bool {
        m.target().starts_with("quiche")
    }
    fn log(&self, r: &log::Record) {
        if !self.enabled(r.metadata()) {
            return;
        }
        let sink = SINK.with(|s| s.borrow().clone());
        if let Some(app) = sink {
            // try_lock: quiche may log while the harness holds the lock (never the case today,
            // but a lost line is better than a deadlock)
            if let Ok(mut a) = app.try_lock() {
                let t = crate::clock::virtual_now().unwrap_or(0);
                if a.keep_notes {
                    a.notes.push(format!("{:>10.3}ms quiche {}", t as f64 / 1e6, r.args()));
                }
            }
        }
    }
    fn flush(&self) {}
}

static LOGGER: Logger = Logger;

pub fn install(verbose: bool) {
    let _ = log::set_logger(&LOGGER);
    log::set_max_level(if verbose { log::LevelFilter::Trace } else { log::LevelFilter::Off });
}

pub fn set_sink(app: Option<SharedApp>) {
    SINK.with(|s| *s.borrow_mut() = app);
}
