//! `s2n_quic_dc::path::secret::sender` is a private module (`mod sender;` in path/secret.rs), so
//! `sender::State::update_for_stale_key` cannot be reached through the crate's public API without
//! a complete handshake + authenticated StaleKey control packet.  The component check therefore
//! compiles the *unmodified source text* of dc/s2n-quic-dc/src/path/secret/sender.rs into this
//! crate (`include!`, path exported by build.rs from the s2n-quic-dc path in Cargo.toml) inside a
//! module tree that provides the three names the file imports.  Everything the file does
//! (fetch_update / fetch_max on the AtomicU64) is the real code; only `SizeOf` is a stand-in.

#![allow(dead_code, unused_imports, unfulfilled_lint_expectations, clippy::all)]

pub mod schedule {
    pub use s2n_quic_dc::path::secret::schedule::*;
}

pub mod map {
    /// stand-in for the crate-private `path::secret::map::SizeOf` (size accounting only)
    pub trait SizeOf: Sized {
        fn size(&self) -> usize {
            std::mem::size_of::<Self>()
        }
    }
    impl SizeOf for std::sync::atomic::AtomicU64 {}
}

pub mod sender {
    include!(concat!(env!("COMP_DC_SRC"), "/path/secret/sender.rs"));
}

use s2n_quic_core::varint::VarInt;

/// the real `sender::State`, reachable from the rest of this crate
pub struct Sender(sender::State);

impl Sender {
    pub fn new() -> Self {
        Sender(sender::State::new([0u8; 16]))
    }
    /// sender.rs:37 `next_key_id`
    pub fn next_key_id(&self) -> u64 {
        self.0.next_key_id().as_u64()
    }
    /// sender.rs:76 `update_for_stale_key` (pub(super): visible here because this module is the
    /// parent of the included `sender` module, exactly like `path::secret` is in the real crate)
    pub fn update_for_stale_key(&self, m: u64) {
        self.0.update_for_stale_key(VarInt::new(m).expect("caller keeps m a VarInt"));
    }
}
