//! C16: `s2n_quic_core::packet::number::Map<u64>` against `BTreeMap<u64,u64>`.
//!
//! Preconditions of the real API that the executor enforces (an operation violating them is
//! skipped and counted, it is never sent to the real map): `insert` needs a packet number above
//! every stored one (map.rs:105-111), `insert_or_update` one not below the lowest stored
//! (map.rs:145-150); the ring grows to the distance from the lowest stored number, so distances
//! are kept below 2^15.

use crate::common::*;
use s2n_quic_core::{
    packet::number::{Map, PacketNumber, PacketNumberRange, PacketNumberSpace},
    varint::VarInt,
};
use simkit::Rng;
use std::collections::BTreeMap;

const MAX_DISTANCE: u64 = 1 << 15;

fn pn(v: u64) -> PacketNumber {
    PacketNumberSpace::ApplicationData.new_packet_number(VarInt::new(v).unwrap())
}

struct Exec<'r> {
    real: Map<u64>,
    m: BTreeMap<u64, u64>,
    rec: &'r mut Rec,
    resizes: u64,
    range_removals: u64,
    wraps: u64,
    cap: u64,
}

impl Exec<'_> {
    fn lo(&self) -> Option<u64> {
        self.m.keys().next().copied()
    }
    fn hi(&self) -> Option<u64> {
        self.m.keys().next_back().copied()
    }

    fn compare(&mut self, kind: &str) {
        if self.rec.failed() {
            return;
        }
        self.rec.out(0x3a9, self.m.len() as u64, self.lo().unwrap_or(u64::MAX));
        if self.real.is_empty() != self.m.is_empty() {
            return self.rec.fail("C16.pnmap.is_empty", kind, format!("is_empty()={} reference holds {} entries", self.real.is_empty(), self.m.len()));
        }
        if let (Some(a), Some(b)) = (self.lo(), self.hi()) {
            let r = self.real.get_range();
            if (r.start().as_u64(), r.end().as_u64()) != (a, b) {
                return self.rec.fail("C16.pnmap.get_range", kind, format!("get_range()={}..={} reference {a}..={b}", r.start().as_u64(), r.end().as_u64()));
            }
        }
        let got: Vec<(u64, u64)> = self.real.iter().map(|(p, v)| (p.as_u64(), *v)).collect();
        let want: Vec<(u64, u64)> = self.m.iter().map(|(k, v)| (*k, *v)).collect();
        if got != want {
            return self.rec.fail("C16.pnmap.entries", kind, format!("iter() yields {} entries {:?}.., reference {} entries {:?}..", got.len(), &got[..got.len().min(6)], want.len(), &want[..want.len().min(6)]));
        }
    }

    fn step(&mut self, op: &Op) {
        match *op {
            Op::MIns { pn: p, val } => {
                let ok = p <= VARINT_MAX && self.hi().is_none_or(|h| p > h) && self.lo().is_none_or(|l| p - l < MAX_DISTANCE);
                if !ok {
                    self.rec.stats.skipped_precondition += 1;
                    return;
                }
                self.rec.stats.op("pnmap.insert");
                if let Some(l) = self.lo() {
                    if p - l >= self.cap {
                        self.resizes += 1;
                        self.rec.stats.probe("pnmap_ring_resized");
                        while self.cap <= p - l {
                            self.cap *= 2;
                        }
                    }
                }
                self.real.insert(pn(p), val);
                self.m.insert(p, val);
            }
            Op::MInsUpd { pn: p, val } => {
                let ok = p <= VARINT_MAX && self.lo().is_none_or(|l| p >= l && p - l < MAX_DISTANCE);
                if !ok {
                    self.rec.stats.skipped_precondition += 1;
                    return;
                }
                self.rec.stats.op("pnmap.insert_or_update");
                if let Some(l) = self.lo() {
                    if p - l >= self.cap {
                        self.resizes += 1;
                        self.rec.stats.probe("pnmap_ring_resized");
                        while self.cap <= p - l {
                            self.cap *= 2;
                        }
                    }
                }
                self.real.insert_or_update(pn(p), val, |prev| *prev = prev.wrapping_mul(31).wrapping_add(val));
                match self.m.get_mut(&p) {
                    Some(prev) => {
                        *prev = prev.wrapping_mul(31).wrapping_add(val);
                        self.rec.stats.probe("pnmap_update_existing");
                    }
                    None => {
                        self.m.insert(p, val);
                    }
                }
            }
            Op::MGet { pn: p } if p <= VARINT_MAX => {
                self.rec.stats.op("pnmap.get");
                let got = self.real.get(pn(p)).copied();
                let want = self.m.get(&p).copied();
                self.rec.out(0x3aa, got.unwrap_or(u64::MAX), got.is_some() as u64);
                if got != want {
                    self.rec.fail("C16.pnmap.get", "get", format!("get({p})={got:?} reference {want:?}"));
                }
            }
            Op::MRem { pn: p } if p <= VARINT_MAX => {
                self.rec.stats.op("pnmap.remove");
                let got = self.real.remove(pn(p));
                let want = self.m.remove(&p);
                self.rec.out(0x3ab, got.unwrap_or(u64::MAX), got.is_some() as u64);
                self.rec.note(|| format!("{got:?}"));
                if got != want {
                    self.rec.fail("C16.pnmap.remove", "remove", format!("remove({p})={got:?} reference {want:?}"));
                }
            }
            Op::MRemRange { lo, hi, take } if lo <= hi && hi <= VARINT_MAX => {
                self.rec.stats.op("pnmap.remove_range");
                let want: Vec<(u64, u64)> = self.m.range(lo..=hi).map(|(k, v)| (*k, *v)).collect();
                let mut got: Vec<(u64, u64)> = vec![];
                {
                    let mut it = self.real.remove_range(PacketNumberRange::new(pn(lo), pn(hi)));
                    for _ in 0..take {
                        match it.next() {
                            Some((p, v)) => got.push((p.as_u64(), v)),
                            None => break,
                        }
                    }
                    // dropping the iterator must remove the rest (map.rs:530-535)
                }
                self.rec.out(0x3ac, got.len() as u64, want.len() as u64);
                self.rec.note(|| format!("{} of {} taken", got.len(), want.len()));
                let n = (take as usize).min(want.len());
                if got != want[..n] {
                    return self.rec.fail("C16.pnmap.remove_range", "remove_range", format!("remove_range({lo}..={hi}) yielded {got:?}, reference {:?}", &want[..n]));
                }
                if !want.is_empty() {
                    self.range_removals += 1;
                    if got.len() < want.len() {
                        self.rec.stats.probe("pnmap_remove_range_dropped_early");
                    }
                    let (a, b) = (self.lo().unwrap(), self.hi().unwrap());
                    self.rec.stats.probe(match (lo <= a, hi >= b) {
                        (true, true) => "pnmap_remove_range_all",
                        (true, false) => "pnmap_remove_range_front",
                        (false, true) => "pnmap_remove_range_back",
                        (false, false) => "pnmap_remove_range_middle",
                    });
                }
                for (k, _) in &want {
                    self.m.remove(k);
                }
            }
            Op::MIterMut { add } => {
                self.rec.stats.op("pnmap.iter_mut");
                for (_, v) in self.real.iter_mut() {
                    *v = v.wrapping_add(add);
                }
                for v in self.m.values_mut() {
                    *v = v.wrapping_add(add);
                }
            }
            Op::Clear => {
                self.rec.stats.op("pnmap.clear");
                self.real.clear();
                self.m.clear();
            }
            _ => self.rec.stats.skipped_precondition += 1,
        }
        if let (Some(l), Some(h)) = (self.lo(), self.hi()) {
            // the ring index wraps when entries were removed at the front and appended at the back
            if h - l < self.cap && self.m.len() as u64 > 0 && h % self.cap < l % self.cap {
                self.wraps += 1;
                self.rec.stats.probe("pnmap_ring_index_wrapped");
            }
        }
    }
}

pub fn execute(h: &History, trace: bool) -> Outcome {
    let mut rec = Rec::new("C16", "pnmap", trace);
    let nontrivial;
    {
        let mut e = Exec { real: Map::default(), m: BTreeMap::new(), rec: &mut rec, resizes: 0, range_removals: 0, wraps: 0, cap: 8 };
        for (i, op) in h.ops.iter().enumerate() {
            e.rec.begin(i, op);
            e.step(op);
            e.compare("after op");
            if e.rec.failed() {
                break;
            }
        }
        nontrivial = e.resizes >= 1 && e.range_removals >= 1;
    }
    rec.finish(nontrivial)
}

pub fn generate(seed: u64) -> History {
    let mut rng = Rng::new(seed ^ 0x3a9_3a9);
    let n = rng.range(1, 200) as usize;
    let base = rng.pick(&[0u64, 0, 1, 7, 1 << 20, VARINT_MAX - 40_000]);
    let mut next = base;
    let mut lo = base;
    let mut ops = Vec::with_capacity(n);
    while ops.len() < n {
        let op = match rng.below(100) {
            0..=44 => {
                // sent packets: ascending, sometimes skipping numbers, rarely a long jump
                let gap = match rng.below(20) {
                    0..=13 => 0,
                    14..=17 => rng.range(1, 5),
                    18 => rng.range(6, 40),
                    _ => rng.range(100, 3000),
                };
                next = next.saturating_add(gap).min(VARINT_MAX);
                let p = next;
                next = next.saturating_add(1).min(VARINT_MAX);
                Op::MIns { pn: p, val: rng.next() >> 8 }
            }
            45..=52 => Op::MInsUpd { pn: rng.range(lo, next.saturating_add(3)).min(VARINT_MAX), val: rng.below(1000) },
            53..=60 => Op::MGet { pn: rng.range(lo.saturating_sub(2), next.saturating_add(2)).min(VARINT_MAX) },
            61..=73 => Op::MRem { pn: if rng.chance(1, 3) { lo } else { rng.range(lo, next).min(VARINT_MAX) } },
            74..=91 => {
                // ACK processing: ranges at the front, in the middle, at the back, over everything
                let span = next - lo.min(next);
                let (a, b) = match rng.below(5) {
                    0 => (lo.saturating_sub(rng.below(3)), lo + rng.range(0, span.min(12))),
                    1 => {
                        let a = lo + rng.range(0, span);
                        (a, a + rng.range(0, 6))
                    }
                    2 => (next.saturating_sub(rng.range(1, 6)), next.saturating_add(rng.below(3))),
                    3 => (lo.saturating_sub(1), next.saturating_add(1)),
                    _ => {
                        let a = rng.range(lo.saturating_sub(3), next.saturating_add(3));
                        (a, a + rng.range(0, 20))
                    }
                };
                if rng.chance(2, 3) {
                    lo = lo.max(if a <= lo { b.saturating_add(1).min(next) } else { lo });
                }
                Op::MRemRange { lo: a.min(VARINT_MAX), hi: b.min(VARINT_MAX).max(a.min(VARINT_MAX)), take: rng.pick(&[0u32, 1, 2, u32::MAX, u32::MAX]) }
            }
            92..=95 => Op::MIterMut { add: rng.below(5) },
            96 => Op::Clear,
            _ => Op::MGet { pn: rng.pick(&[0u64, base, VARINT_MAX]) },
        };
        ops.push(op);
    }
    History { property: "C16".into(), structure: "pnmap".into(), seed, param: 0, ops }
}
