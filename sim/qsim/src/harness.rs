//! Check driver: seeded search over plans, oracle evaluation, minimisation, replay, evidence.

use crate::{
    gen,
    kernel::{ddmin, Violation},
    oracle::{self, RunStats, View},
    plan::*,
    run,
};
use serde_json::json;
use std::{
    collections::{BTreeMap, BTreeSet},
    sync::{
        atomic::{AtomicBool, AtomicU64, Ordering},
        Arc, Mutex,
    },
    time::{Duration, Instant},
};

pub const VERIF_DIR: &str = "/verif";

#[derive(Clone, Debug)]
pub struct Known {
    pub property: String,
    pub status: String,
    pub oracle: String,
    pub sig: String,
    pub text: String,
}

pub fn load_known() -> Vec<Known> {
    let path = format!("{VERIF_DIR}/known_findings.json");
    let Ok(s) = std::fs::read_to_string(&path) else { return vec![] };
    let Ok(v) = serde_json::from_str::<serde_json::Value>(&s) else {
        eprintln!("HARNESS-ERROR: {path} does not parse");
        std::process::exit(2);
    };
    let mut out = vec![];
    for f in v["findings"].as_array().cloned().unwrap_or_default() {
        out.push(Known {
            property: f["property"].as_str().unwrap_or("").into(),
            status: f["status"].as_str().unwrap_or("").into(),
            oracle: f["oracle"].as_str().unwrap_or("").into(),
            sig: f["sig"].as_str().unwrap_or("").into(),
            text: f["text"].as_str().unwrap_or("").into(),
        });
    }
    out
}

fn is_known(k: &[Known], v: &Violation) -> Option<Known> {
    k.iter()
        .find(|k| k.status == "known" && k.property == v.property && k.oracle == v.oracle && (k.sig.is_empty() || k.sig == v.sig))
        .cloned()
}

pub struct Outcome {
    pub violations: Vec<Violation>,
    pub stats: RunStats,
    pub nontrivial: bool,
    pub hash: u64,
}

pub fn run_plan(plan: &Plan, property: &str) -> Outcome {
    let out = run::execute(plan, needs_net_bytes(property));
    let view = View::new(&out);
    let violations = oracle::evaluate(property, &view);
    let stats = oracle::stats(&view);
    let nontrivial = oracle::nontrivial(property, &view, &stats);
    let hash = oracle::history_hash(&out);
    Outcome { violations, stats, nontrivial, hash }
}

fn needs_net_bytes(property: &str) -> bool {
    matches!(property, "C05" | "C08" | "C11" | "C12" | "C13" | "C14")
}

// ---------------------------------------------------------------------------------------
// minimisation

fn still_fails(plan: &Plan, property: &str, oracle_id: &str, budget: &mut u32) -> bool {
    if *budget == 0 {
        return false;
    }
    *budget -= 1;
    // "oracle" or "oracle\u{1}sig": the same violation class must persist while shrinking
    let (o, sig) = match oracle_id.split_once('\u{1}') {
        Some((o, s)) => (o, Some(s)),
        None => (oracle_id, None),
    };
    run_plan(plan, property).violations.iter().any(|v| v.oracle == o && sig.map_or(true, |s| v.sig == s))
}

pub fn minimise(plan: &Plan, property: &str, oracle_id: &str) -> Plan {
    let mut budget = 120u32;
    let mut cur = plan.clone();
    // 1. faults
    let faults = cur.faults.clone();
    let min_faults = ddmin(&faults, |fs| {
        let mut p = cur.clone();
        p.faults = fs.to_vec();
        still_fails(&p, property, oracle_id, &mut budget)
    });
    {
        let mut p = cur.clone();
        p.faults = min_faults;
        if still_fails(&p, property, oracle_id, &mut budget) {
            cur = p;
        }
    }
    // 2. connections
    while cur.conns.len() > 1 {
        let mut reduced = false;
        for i in (0..cur.conns.len()).rev() {
            let mut p = cur.clone();
            p.conns.remove(i);
            if still_fails(&p, property, oracle_id, &mut budget) {
                cur = p;
                reduced = true;
                break;
            }
        }
        if !reduced {
            break;
        }
    }
    // 3. streams
    for ci in 0..cur.conns.len() {
        let streams = cur.conns[ci].streams.clone();
        let min_streams = ddmin(&streams, |ss| {
            if ss.is_empty() {
                return false;
            }
            let mut p = cur.clone();
            p.conns[ci].streams = ss.to_vec();
            still_fails(&p, property, oracle_id, &mut budget)
        });
        if !min_streams.is_empty() {
            let mut p = cur.clone();
            p.conns[ci].streams = min_streams;
            if still_fails(&p, property, oracle_id, &mut budget) {
                cur = p;
            }
        }
    }
    // 4. sizes and script details
    for ci in 0..cur.conns.len() {
        for si in 0..cur.conns[ci].streams.len() {
            for _ in 0..6 {
                let mut p = cur.clone();
                let s = &mut p.conns[ci].streams[si];
                let before = (s.fwd.total, s.rev.as_ref().map(|r| r.total));
                s.fwd.total /= 2;
                if let Some(r) = s.rev.as_mut() {
                    r.total /= 2;
                }
                if before == (s.fwd.total, s.rev.as_ref().map(|r| r.total)) {
                    break;
                }
                if still_fails(&p, property, oracle_id, &mut budget) {
                    cur = p;
                } else {
                    break;
                }
            }
            let mut p = cur.clone();
            let s = &mut p.conns[ci].streams[si];
            s.fwd.pauses.clear();
            s.fwd_recv.pauses.clear();
            s.fwd.mode = SendMode::Send;
            s.fwd_recv.mode = RecvMode::Receive;
            s.open_delay_us = 0;
            if let Some(r) = s.rev.as_mut() {
                r.pauses.clear();
                r.mode = SendMode::Send;
            }
            if let Some(r) = s.rev_recv.as_mut() {
                r.pauses.clear();
                r.mode = RecvMode::Receive;
            }
            if p != cur && still_fails(&p, property, oracle_id, &mut budget) {
                cur = p;
            }
        }
    }
    // 5. configuration towards defaults
    let tries: Vec<Box<dyn Fn(&mut Plan)>> = vec![
        Box::new(|p| p.yield_key = 0),
        Box::new(|p| p.cfg.jitter_us = 0),
        Box::new(|p| p.cfg.net_batch = 0),
        Box::new(|p| p.cfg.server = EndpointCfg { byz: p.cfg.server.byz.clone(), tp_rule: p.cfg.server.tp_rule.clone(), ..Default::default() }),
        Box::new(|p| p.cfg.client = EndpointCfg { byz: p.cfg.client.byz.clone(), tp_rule: p.cfg.client.tp_rule.clone(), ..Default::default() }),
        Box::new(|p| p.cfg.cert_size = 1000),
        Box::new(|p| p.cfg.path_mtu = 1500),
        Box::new(|p| p.cfg.base_delay_us = 20_000),
        Box::new(|p| p.cfg.cipher = 0),
        Box::new(|p| p.attacker.clear()),
    ];
    for t in tries {
        let mut p = cur.clone();
        t(&mut p);
        if p != cur && still_fails(&p, property, oracle_id, &mut budget) {
            cur = p;
        }
    }
    cur
}

// ---------------------------------------------------------------------------------------
// replay files

pub fn write_replay(property: &str, seed: u64, plan: &Plan, original: &Plan, v: &Violation, hash: u64) -> String {
    let dir = format!("{VERIF_DIR}/replays/{property}");
    let _ = std::fs::create_dir_all(&dir);
    let path = format!("{dir}/{seed}.json");
    let doc = json!({
        "property": property,
        "seed": seed,
        "violation": v,
        "history_hash": format!("{hash:016x}"),
        "plan": plan,
        "original_plan": original,
        "replay": format!("./check {property} --replay {path}"),
    });
    std::fs::write(&path, serde_json::to_string_pretty(&doc).unwrap()).unwrap();
    path
}

pub fn replay(path: &str, property_override: Option<&str>) -> i32 {
    let Ok(s) = std::fs::read_to_string(path) else {
        eprintln!("HARNESS-ERROR: cannot read {path}");
        return 2;
    };
    let doc: serde_json::Value = match serde_json::from_str(&s) {
        Ok(d) => d,
        Err(e) => {
            eprintln!("HARNESS-ERROR: {path}: {e}");
            return 2;
        }
    };
    let plan: Plan = match serde_json::from_value(doc["plan"].clone()) {
        Ok(p) => p,
        Err(e) => {
            eprintln!("HARNESS-ERROR: {path}: plan: {e}");
            return 2;
        }
    };
    let property = property_override.map(|s| s.to_string()).unwrap_or(plan.property.clone());
    let o = run_plan(&plan, &property);
    println!("replay {path}: history_hash={:016x} (recorded {})", o.hash, doc["history_hash"]);
    let known = load_known();
    let mut code = 0;
    for v in &o.violations {
        if let Some(k) = is_known(&known, v) {
            println!("KNOWN-FINDING: property={} {}", v.property, k.text);
        } else {
            println!("violation: {} {} :: {}", v.property, v.oracle, v.detail);
            println!("VIOLATION property={} replay={}", v.property, path);
            code = 1;
        }
    }
    if o.violations.is_empty() {
        println!("replay: no violation");
    }
    code
}

// ---------------------------------------------------------------------------------------
// batch execution

#[derive(Default)]
struct Agg {
    runs: u64,
    sim_time_ns: u128,
    nontrivial_sigs: BTreeSet<u64>,
    all_sigs: BTreeSet<u64>,
    faults: BTreeMap<String, u64>,
    probes: BTreeMap<String, u64>,
    probe_runs: BTreeMap<String, u64>,
    frame_types: BTreeSet<String>,
    varint_widths: [u64; 4],
    families: BTreeMap<String, u64>,
    violations: Vec<(u64, Violation)>,
    samples: Vec<serde_json::Value>,
    panics: u64,
}

fn summarize(plan: &Plan, o: &Outcome) -> serde_json::Value {
    let streams: usize = plan.conns.iter().map(|c| c.streams.len()).sum();
    let bytes: u64 = plan
        .conns
        .iter()
        .flat_map(|c| c.streams.iter())
        .map(|s| s.fwd.total + s.rev.as_ref().map_or(0, |r| r.total))
        .sum();
    json!({
        "seed": plan.seed,
        "family": plan.family,
        "conns": plan.conns.len(),
        "streams": streams,
        "stream_bytes": bytes,
        "cipher": plan.cfg.cipher,
        "cc": [plan.cfg.server.cc, plan.cfg.client.cc],
        "path_mtu": plan.cfg.path_mtu,
        "base_delay_us": plan.cfg.base_delay_us,
        "jitter_us": plan.cfg.jitter_us,
        "server_windows": [plan.cfg.server.limits.data_window, plan.cfg.server.limits.bidi_local_window, plan.cfg.server.limits.bidi_remote_window, plan.cfg.server.limits.uni_window],
        "client_windows": [plan.cfg.client.limits.data_window, plan.cfg.client.limits.bidi_local_window, plan.cfg.client.limits.bidi_remote_window, plan.cfg.client.limits.uni_window],
        "faults_planned": plan.faults.iter().take(6).collect::<Vec<_>>(),
        "faults_fired": o.stats.faults,
        "probes": o.stats.probes,
        "sim_time_ms": o.stats.sim_time_ns / 1_000_000,
        "history_hash": format!("{:016x}", o.hash),
        "violations": o.violations.len(),
    })
}

pub struct CheckArgs {
    pub property: String,
    pub tier: String,
    pub seed: u64,
    pub runs: Option<u64>,
    pub budget_s: Option<u64>,
    pub threads: usize,
}

pub fn quick_runs(property: &str) -> u64 {
    // a fixed number of seeds (not a wall-clock budget) so that the quick verdict does not depend
    // on machine load
    match property {
        "C01" => 6000,
        "C02" => 6000,
        "C03" => 8000,
        "C04" => 8000,
        "C05" => 3000,
        "C09" | "C10" => 2500,
        "C15" => 1500,
        "C13" => 1500,
        "C14" => 8000,
        _ => 4000,
    }
}

pub fn check(a: &CheckArgs, meta: &CheckMeta) -> i32 {
    let t0 = Instant::now();
    let known = load_known();
    let thorough = a.tier == "thorough";
    let budget = Duration::from_secs(a.budget_s.unwrap_or(if thorough { 900 } else { 600 }));
    let max_runs = a.runs.unwrap_or(if thorough { u64::MAX } else { quick_runs(&a.property) });
    let next = Arc::new(AtomicU64::new(0));
    let stop = Arc::new(AtomicBool::new(false));
    let agg = Arc::new(Mutex::new(Agg::default()));
    let started: Arc<Mutex<BTreeMap<usize, (u64, Instant)>>> = Default::default();
    let harness_error = Arc::new(Mutex::new(None::<String>));

    // determinism self-check on the first seeds of the batch
    let det_n = if thorough { 24 } else { 8 };
    let mut det_equal = 0;
    {
        let seeds: Vec<u64> = (0..det_n).map(|i| a.seed + i).collect();
        let results: Vec<(u64, u64)> = std::thread::scope(|s| {
            let hs: Vec<_> = seeds
                .iter()
                .map(|seed| {
                    let prop = a.property.clone();
                    let seed = *seed;
                    s.spawn(move || {
                        crate::run::install_panic_hook();
                        let plan = gen::plan_for(&prop, seed);
                        let h1 = run_plan(&plan, &prop).hash;
                        let h2 = run_plan(&plan, &prop).hash;
                        (h1, h2)
                    })
                })
                .collect();
            hs.into_iter().map(|h| h.join().unwrap()).collect()
        });
        for (i, (h1, h2)) in results.iter().enumerate() {
            if h1 == h2 {
                det_equal += 1;
            } else {
                eprintln!("HARNESS-ERROR: plan for seed {} is not reproducible ({h1:016x} vs {h2:016x})", seeds[i]);
                return 2;
            }
        }
    }

    // regression plans: minimised histories of defects found (and fixed) earlier
    let mut regress_violations: Vec<(String, Violation)> = vec![];
    let mut regress_run = 0u64;
    if let Ok(rd) = std::fs::read_dir(format!("{VERIF_DIR}/regress/{}", a.property)) {
        let mut files: Vec<_> = rd.filter_map(|e| e.ok()).map(|e| e.path()).filter(|p| p.extension().map_or(false, |x| x == "json")).collect();
        files.sort();
        for f in files {
            let Ok(s) = std::fs::read_to_string(&f) else { continue };
            let Ok(doc) = serde_json::from_str::<serde_json::Value>(&s) else { continue };
            // plans of other engines serving the same property live in the same directory
            if doc["engine"].as_str().map_or(false, |e| e != "qsim") {
                continue;
            }
            let Ok(plan) = serde_json::from_value::<Plan>(doc["plan"].clone()) else {
                eprintln!("HARNESS-ERROR: regression plan {} does not parse", f.display());
                return 2;
            };
            regress_run += 1;
            let o = run_plan(&plan, &a.property);
            for v in o.violations {
                regress_violations.push((f.display().to_string(), v));
            }
        }
    }

    std::thread::scope(|s| {
        for w in 0..a.threads {
            let next = next.clone();
            let stop = stop.clone();
            let agg = agg.clone();
            let started = started.clone();
            let prop = a.property.clone();
            let base = a.seed;
            s.spawn(move || {
                crate::run::install_panic_hook();
                loop {
                    if stop.load(Ordering::Relaxed) {
                        break;
                    }
                    let i = next.fetch_add(1, Ordering::Relaxed);
                    if i >= max_runs {
                        break;
                    }
                    let seed = base.wrapping_add(i);
                    started.lock().unwrap().insert(w, (seed, Instant::now()));
                    let plan = gen::plan_for(&prop, seed);
                    let t_run = Instant::now();
                    let o = run_plan(&plan, &prop);
                    if t_run.elapsed() > Duration::from_secs(2) && std::env::var("VERIF_TRACE_SLOW").is_ok() {
                        eprintln!("slow run: seed {seed} family {} wall {:?} sim {} ms", plan.family, t_run.elapsed(), o.stats.sim_time_ns / 1_000_000);
                    }
                    started.lock().unwrap().remove(&w);
                    let mut g = agg.lock().unwrap();
                    g.runs += 1;
                    g.sim_time_ns += o.stats.sim_time_ns as u128;
                    g.all_sigs.insert(o.stats.sig);
                    if o.nontrivial {
                        g.nontrivial_sigs.insert(o.stats.sig);
                    }
                    *g.families.entry(plan.family.clone()).or_insert(0) += 1;
                    for (k, n) in &o.stats.faults {
                        *g.faults.entry(k.to_string()).or_insert(0) += n;
                    }
                    for (k, n) in &o.stats.probes {
                        *g.probes.entry(k.to_string()).or_insert(0) += n;
                        *g.probe_runs.entry(k.to_string()).or_insert(0) += 1;
                    }
                    for f in &o.stats.frame_types {
                        g.frame_types.insert(f.to_string());
                    }
                    for k in 0..4 {
                        g.varint_widths[k] += o.stats.varint_widths[k];
                    }
                    if g.samples.len() < 4 && (o.nontrivial || g.runs > 50) {
                        let mut sm = summarize(&plan, &o);
                        if g.samples.is_empty() {
                            sm["full_plan"] = serde_json::to_value(&plan).unwrap();
                        }
                        g.samples.push(sm);
                    }
                    for v in &o.violations {
                        g.violations.push((seed, v.clone()));
                    }
                }
            });
        }
        // watchdog + budget
        let stop2 = stop.clone();
        let started2 = started.clone();
        let he = harness_error.clone();
        let next2 = next.clone();
        s.spawn(move || loop {
            std::thread::sleep(Duration::from_millis(200));
            if t0.elapsed() > budget {
                stop2.store(true, Ordering::Relaxed);
            }
            let g = started2.lock().unwrap();
            for (_, (seed, t)) in g.iter() {
                if t.elapsed() > Duration::from_secs(300) {
                    *he.lock().unwrap() = Some(format!("run with seed {seed} exceeded the wall-clock watchdog (300 s)"));
                    eprintln!("HARNESS-ERROR: run with seed {seed} exceeded the wall-clock watchdog");
                    std::process::exit(2);
                }
            }
            if g.is_empty() && (stop2.load(Ordering::Relaxed) || next2.load(Ordering::Relaxed) >= max_runs) {
                break;
            }
        });
    });

    let g = std::mem::take(&mut *agg.lock().unwrap());
    let wall = t0.elapsed().as_secs_f64();
    if std::env::var("VERIF_SIGS").is_ok() {
        let mut c: BTreeMap<(String, String), (u64, u64)> = BTreeMap::new();
        for (seed, v) in &g.violations {
            let e = c.entry((v.oracle.clone(), v.sig.clone())).or_insert((0, *seed));
            e.0 += 1;
        }
        for ((o, s), (n, seed)) in c {
            eprintln!("sig {o} {s}: {n} (e.g. seed {seed})");
        }
    }

    // triage violations: known findings vs new
    let mut exit = 0;
    let mut known_seen: BTreeMap<String, u64> = BTreeMap::new();
    let mut reported: BTreeSet<String> = BTreeSet::new();
    let mut new_violations = 0u64;
    let mut replay_paths = vec![];
    for (seed, v) in &g.violations {
        if let Some(k) = is_known(&known, v) {
            *known_seen.entry(format!("{} {}", v.oracle, k.text)).or_insert(0) += 1;
            continue;
        }
        new_violations += 1;
        if !reported.insert(v.oracle.clone()) || reported.len() > 4 {
            continue;
        }
        // minimise and write the replay file
        let original = gen::plan_for(&a.property, *seed);
        let min = minimise(&original, &a.property, &format!("{}\u{1}{}", v.oracle, v.sig));
        let o = run_plan(&min, &a.property);
        let mv = o.violations.iter().find(|x| x.oracle == v.oracle && x.sig == v.sig).cloned().unwrap_or(v.clone());
        let path = write_replay(&a.property, *seed, &min, &original, &mv, o.hash);
        println!("violation (seed {seed}): {} :: {}", mv.oracle, mv.detail);
        println!("VIOLATION property={} replay={}", a.property, path);
        replay_paths.push(path);
        exit = 1;
    }
    for (path, v) in &regress_violations {
        if let Some(k) = is_known(&known, v) {
            *known_seen.entry(format!("{} {}", v.oracle, k.text)).or_insert(0) += 1;
            continue;
        }
        new_violations += 1;
        println!("violation (regression plan {path}): {} :: {}", v.oracle, v.detail);
        println!("VIOLATION property={} replay={}", a.property, path);
        exit = 1;
    }
    for (k, n) in &known_seen {
        let (oracle, text) = k.split_once(' ').unwrap_or((k, ""));
        println!("KNOWN-FINDING: property={} {} [oracle {}, seen in {} runs]", a.property, text, oracle, n);
    }

    // evidence
    let runs_per_hour = if wall > 0.0 { g.runs as f64 * 3600.0 / wall } else { 0.0 };
    let ev = json!({
        "property_id": a.property,
        "tier": if thorough { "thorough" } else { "quick" },
        "seed": a.seed,
        "level": meta.level,
        "coverage": {
            "evaluations": g.runs,
            "distinct_nontrivial": g.nontrivial_sigs.len(),
            "rule": meta.rule,
            "samples": g.samples,
            "distinct_interleavings": g.all_sigs.len(),
            "runs_per_hour": runs_per_hour as u64,
            "seeds": format!("{}..{}", a.seed, a.seed.wrapping_add(g.runs)),
            "sim_time_total_s": (g.sim_time_ns / 1_000_000_000) as u64,
            "faults_fired": g.faults,
            "reach_probes": g.probes,
            "reach_probe_runs": g.probe_runs,
            "frame_types_seen": g.frame_types,
            "varint_widths_seen_1_2_4_8": g.varint_widths,
            "families": g.families,
            "regression_plans_replayed": regress_run,
            "components": meta.components,
            "determinism_selfcheck": {"seeds": det_n, "rerun_equal": det_equal},
            "known_findings_seen": known_seen,
            "new_violations": new_violations,
            "replays": replay_paths,
        },
        "assumptions": meta.assumptions,
        "wall_s": wall,
        "violations": new_violations,
    });
    let ev_path = match std::env::var("VERIF_EVIDENCE_PART") {
        Ok(part) if !part.is_empty() => {
            let _ = std::fs::create_dir_all(format!("{VERIF_DIR}/evidence/parts"));
            format!("{VERIF_DIR}/evidence/parts/{}.{part}.json", a.property)
        }
        _ => {
            let _ = std::fs::create_dir_all(format!("{VERIF_DIR}/evidence"));
            format!("{VERIF_DIR}/evidence/{}.json", a.property)
        }
    };
    std::fs::write(ev_path, serde_json::to_string_pretty(&ev).unwrap()).unwrap();
    println!(
        "check {} tier={} seed={} runs={} distinct_nontrivial={} distinct_interleavings={} sim_time={}s wall={:.1}s violations={} known={}",
        a.property,
        a.tier,
        a.seed,
        g.runs,
        g.nontrivial_sigs.len(),
        g.all_sigs.len(),
        g.sim_time_ns / 1_000_000_000,
        wall,
        new_violations,
        known_seen.values().sum::<u64>()
    );
    if let Some(e) = harness_error.lock().unwrap().clone() {
        eprintln!("HARNESS-ERROR: {e}");
        return 2;
    }
    if g.runs == 0 {
        eprintln!("HARNESS-ERROR: no runs executed");
        return 2;
    }
    exit
}

pub struct CheckMeta {
    pub level: &'static str,
    pub rule: &'static str,
    pub components: serde_json::Value,
    pub assumptions: Vec<&'static str>,
}

pub fn meta_for(property: &str) -> CheckMeta {
    let components = json!({
        "real": ["s2n-quic (Client/Server API)", "s2n-quic-transport", "s2n-quic-core", "s2n-quic-platform event loop + rx/tx rings (testing IO)", "s2n-quic-crypto packet/header protection and key update"],
        "stub": ["TLS 1.3 handshake (sim-TLS: framed transport parameters + certificate blob, deterministic secrets)", "network (SimNet)", "clock (bach virtual time)", "random / connection-id / reset-token / address-token generators (seeded; the library's default address-token provider rotates keys by the wall clock)"]
    });
    let assumptions = vec![
        "sampling, not proof: a clean batch is evidence only",
        "TLS 1.3 itself is replaced by a deterministic stub; all packet protection is real",
        "tasks are interleaved by bach's FIFO executor perturbed by planned yields; no preemption inside a poll",
    ];
    let rule = match property {
        "C01" => "plan = f(seed): swarm config x app scripts x datagram fault plan; non-trivial = at least one fault fired, stream bytes were read after the first fault and at least one stream reached clean EOF; distinct = distinct hash of the (endpoint, tx/rx, space) event order plus per-datagram fates",
        "C02" => "plan = f(seed) from three families (finite faults incl. blackholes / permanent blackhole / all-blocking configurations); non-trivial = faults fired and (finite: work completed after faults; blackhole: a connection existed when the blackhole started; block: a *_BLOCKED frame was sent); distinct = event-order hash",
        "C03" => "plan = f(seed): small windows / stream limits, resets, stop_sending, loss; non-trivial = the sender was actually limited (a *_BLOCKED frame was sent or a RESET_STREAM was sent); distinct = event-order hash",
        "C04" => "plan = f(seed): the byzantine rule catalogue (33 rules) is enumerated by seed modulo its length (fault_enumeration) x random attacker role, history position and surrounding workload/loss (exploration); non-trivial = the victim processed the offending packet; distinct = event-order hash; the advertised-credit bound is evaluated in every run",
        "C05" => "REDUCED CLAIM (pure all-inputs clause is outside this technique): plan = f(seed) rotating over the byzantine (C04), forged-traffic (C06), credit (C03) and transfer (C01) families; every cleartext payload sent or processed and every datagram emitted is decoded by the independent RFC 9000 parser and by the real decoders and compared; non-trivial = a mutated/injected datagram or a rewritten cleartext reached a real decoder; distinct = event-order hash",
        "C06" => "plan = f(seed): family c06.forge injects only additive faults (bit-flipped / truncated / extended / spliced copies IN ADDITION to the genuine datagram, replays incl. from a third address, duplicates, unattributable and spoofed garbage) so every connection must survive and complete; family c06.mixed adds destructive faults (oracle 5 off); non-trivial = a non-genuine datagram was delivered to an endpoint and a stream completed; distinct = event-order hash",
        "C08" => "plan = f(seed): loss incl. ACK-only blackouts, reordering, duplication, delay; non-trivial = a fault fired and an ACK with gaps was sent or a packet was declared lost; distinct = event-order hash",
        "C11" => "plan = f(seed): certificate blobs up to 16 KB (server first flight far above 3x the client's Initial), handshake loss/duplication/delay, Retry on/off, up to 3 clients, and up to 40 unattributable datagrams (garbage, short header with unknown id, unknown version, Version Negotiation, version 0; sizes 1..1500) from a third address; non-trivial = certificate >= 3000 bytes and the handshake progressed, or an unattributable datagram was answered; distinct = event-order hash",
        "C09" | "C10" => "END-TO-END PART (the component part runs in linksim): plan = f(seed): bulk transfers (up to 3 MiB) over lossy/reordering/duplicating links with total outages of 50 ms - 10 s, both congestion controllers; a shadow of RFC 9002 built from the endpoint's own events (packet_sent, ack_range_received, packet_lost, key_space_discarded, recovery_metrics, congestion, mtu_updated) and the cleartext of what it sent: C09 - every loss has a later acknowledged packet and meets the packet or time threshold (judged with the RTT estimate before and after), no packet resolved twice, recovery_metrics.bytes_in_flight equals the unresolved congestion-controlled packets at every metrics event, smoothed/min RTT inside the samples, consecutive PTO expiries at least base x 2^k apart; C10 - congestion window never below the controller's minimum and no normal-mode congestion-controlled packet leaves with bytes_in_flight >= window (PTO probes, MTU probes, CONNECTION_CLOSE and the one packet when entering recovery exempt); non-trivial = a fault fired, the application made progress and a loss / PTO>=3 / congestion event occurred; distinct = event-order hash",
        "C15" => "END-TO-END PART (the component part runs in linksim): plan = f(seed): transfers of 1-4 MiB with the sim-TLS wrapper key reporting a confidentiality limit of 10 000 + T packets (T = 100..1500, so the transport starts an update every T packets) and an integrity limit of 2..100, loss/duplication/reordering/corruption/forgery up to 15 %; the wrapper tags every ciphertext with its key generation and logs every use: no generation protects more packets than its limit, generation monotone in packet number, AEAD_LIMIT_REACHED exactly when the failed authentications reach the integrity limit, and the data (C01) and liveness (C02) oracles hold on the same history (both sides keep decrypting across updates); non-trivial = at least 4 key updates and application progress; distinct = event-order hash",
        "C13" => "plan = f(seed): 1-3 long-lived connections (up to 260 s virtual) with keep-alive, connection-id lifetimes 60-120 s or none, handshake-id rotation on/off, active_connection_id_limit 2-8 on both sides, 0-5 NAT rebindings of each client at seeded times, loss/duplication/reordering up to 15 %; oracles over the recorded frames, datagram heads and endpoint events: consecutive sequence numbers, distinct ids and reset tokens (per connection and per endpoint), retire_prior_to <= seq, active ids <= peer limit at every issuance, RETIRE only of ids the peer issued and never inside a packet addressed to that id, datagrams for unretired ids of live connections neither handed to another connection nor treated as unroutable; non-trivial = NEW_CONNECTION_ID was sent and (an id was retired or a fault fired); distinct = event-order hash",
        "C14" => "REDUCED CLAIM (the pure decode table over all blocks is input enumeration): the rule catalogue (every numeric parameter at/around its bound, duplicates, removals, unknown and GREASE ids, server-only parameters in a client block, wrong/missing connection-id parameters, malformed encodings, truncations, reordering; ~120 rules per role) is enumerated completely by seed (fault_enumeration), alone and combined with an unknown parameter plus reordering, under random workloads and Retry on/off; expected verdict from an RFC 9000 7.3/7.4/18.2 table in /verif evaluated on the block as received; then the C03 credit monitor and a datagram-size monitor check that the declared values are the ones applied; non-trivial = the rewritten block reached the peer; distinct = event-order hash",
        "C12" => "plan = f(seed): send/finish/reset/stop_sending/close in all orders, hard application close, loss up to 30 %; non-trivial = RESET_STREAM/STOP_SENDING/CONNECTION_CLOSE was sent and a fault fired or a packet was lost; distinct = event-order hash",
        _ => "plan = f(seed); non-trivial = fault fired and progress; distinct = event-order hash",
    };
    let level = if matches!(property, "C04" | "C14") { "fault_enumeration" } else { "exploration" };
    CheckMeta { level, rule, components, assumptions }
}

pub fn main(args: &[String]) -> i32 {
    let mut it = args.iter();
    let cmd = it.next().map(|s| s.as_str()).unwrap_or("");
    match cmd {
        "check" => {
            let property = it.next().cloned().unwrap_or_default();
            let mut a = CheckArgs {
                property,
                tier: std::env::var("VERIF_TIER").unwrap_or_else(|_| "quick".into()),
                seed: std::env::var("VERIF_SEED").ok().and_then(|s| s.parse().ok()).unwrap_or(20260922),
                runs: None,
                budget_s: std::env::var("VERIF_BUDGET_S").ok().and_then(|s| s.parse().ok()),
                threads: std::env::var("VERIF_THREADS").ok().and_then(|s| s.parse().ok()).unwrap_or(16),
            };
            let mut replay_path = None;
            while let Some(x) = it.next() {
                match x.as_str() {
                    "--tier" => a.tier = it.next().cloned().unwrap_or_default(),
                    "--seed" => a.seed = it.next().and_then(|s| s.parse().ok()).unwrap_or(a.seed),
                    "--runs" => a.runs = it.next().and_then(|s| s.parse().ok()),
                    "--budget-s" => a.budget_s = it.next().and_then(|s| s.parse().ok()),
                    "--threads" => a.threads = it.next().and_then(|s| s.parse().ok()).unwrap_or(16),
                    "--replay" => replay_path = it.next().cloned(),
                    _ => {}
                }
            }
            if let Some(p) = replay_path {
                return replay(&p, Some(&a.property));
            }
            let meta = meta_for(&a.property);
            check(&a, &meta)
        }
        "replay" => {
            let p = it.next().cloned().unwrap_or_default();
            replay(&p, None)
        }
        "show" => {
            let property = it.next().cloned().unwrap_or_default();
            let arg = it.next().cloned().unwrap_or_default();
            let plan = if let Ok(seed) = arg.parse::<u64>() {
                gen::plan_for(&property, seed)
            } else {
                let s = std::fs::read_to_string(&arg).expect("replay file");
                let doc: serde_json::Value = serde_json::from_str(&s).expect("json");
                serde_json::from_value(doc["plan"].clone()).expect("plan")
            };
            if it.next().map(|s| s.as_str()) == Some("--plan") {
                println!("{}", serde_json::to_string_pretty(&plan).unwrap());
            }
            let out = run::execute(&plan, true);
            let view = View::new(&out);
            let vs = oracle::evaluate(&property, &view);
            let st = oracle::stats(&view);
            println!("family {} end {} ms panic {:?}", plan.family, out.end_ns / 1_000_000, out.panic.as_ref().map(|p| p.chars().take(3000).collect::<String>()));
            println!("stats {st:?}");
            println!("server_conn {:?}", view.server_conn);
            for (k, s) in &out.app.sends {
                println!("send {k:?} {s:?}");
            }
            for (k, s) in &out.app.recvs {
                println!("recv {k:?} {s:?}");
            }
            for (k, s) in &out.app.conns {
                println!("conn {k:?} {s:?}");
            }
            println!("capped {:?}\npending {:?}", out.app.capped_tasks, out.app.pending_ops);
            for e in &out.obs.evs {
                if let crate::obs::Ev::Closed { .. } = e.ev {
                    println!("closed ev: {e:?}");
                }
            }
            for v in &vs {
                println!("violation {v:?}");
            }
            if std::env::var("VERIF_DEBUG").is_ok() {
                let mut cnt: BTreeMap<String, u64> = BTreeMap::new();
                for e in &out.obs.evs {
                    let k = match &e.ev {
                        crate::obs::Ev::PacketDropped { reason } => format!("ep{} dropped {}", e.ep, reason),
                        crate::obs::Ev::DatagramDropped { reason, .. } => format!("ep{} dgram_dropped {}", e.ep, reason),
                        crate::obs::Ev::PacketLost { .. } => format!("ep{} lost", e.ep),
                        crate::obs::Ev::PacketSent { len, .. } => format!("ep{} sent len{}", e.ep, (len / 100) * 100),
                        crate::obs::Ev::MtuUpdated { mtu, .. } => format!("ep{} mtu {}", e.ep, mtu),
                        _ => continue,
                    };
                    *cnt.entry(k).or_insert(0) += 1;
                }
                for (k, n) in cnt {
                    println!("{k}: {n}");
                }
                let mut lens: BTreeMap<(String, usize, String), u64> = BTreeMap::new();
                for r in &out.net.log {
                    *lens.entry((format!("{:?}", r.dir), r.len / 100 * 100, format!("{:?}", r.drop_reason))).or_insert(0) += 1;
                }
                println!("net: {lens:?}");
                let mut shown = 0;
                for (i, t) in out.obs.tx.iter().enumerate() {
                    let Ok(fr) = &view.tx_frames[i] else { println!("tx parse error {:?}", view.tx_frames[i]); continue };
                    let interesting: Vec<String> = fr.iter().filter(|f| !matches!(f, crate::wire::Frame::Padding{..} | crate::wire::Frame::Ack{..} | crate::wire::Frame::Ping)).map(|f| format!("{f:?}")).collect();
                    if interesting.is_empty() { continue; }
                    shown += 1;
                    if shown > 80 { break; }
                    println!("tx ep{} {:?} pn{} t{}us {}", t.ep, t.space, t.pn, t.t_ns/1000, interesting.join(" ").chars().take(400).collect::<String>());
                }
                if std::env::var("VERIF_DEBUG").map_or(false, |v| v == "2") {
                    let mut all: Vec<(u64, String)> = vec![];
                    for (i, t) in out.obs.tx.iter().enumerate() {
                        let fr = view.tx_frames[i].as_ref().map(|f| f.iter().map(|x| match x { crate::wire::Frame::Ack { ranges, .. } => format!("ACK{ranges:?}"), crate::wire::Frame::Stream { id, off, len, fin, .. } => format!("STREAM({id},{off},{len},{fin})"), o => o.type_name().to_string() }).collect::<Vec<_>>().join(",")).unwrap_or_default();
                        all.push((t.seq, format!("TX  ep{} c{} {:?} pn{} t{}us len{} [{}]", t.ep, t.conn, t.space, t.pn, t.t_ns/1000, t.payload.len(), fr.chars().take(160).collect::<String>())));
                    }
                    for (i, t) in out.obs.rx.iter().enumerate() {
                        let fr = view.rx_frames[i].as_ref().map(|f| f.iter().map(|x| match x { crate::wire::Frame::Ack { ranges, .. } => format!("ACK{ranges:?}"), crate::wire::Frame::Stream { id, off, len, fin, .. } => format!("STREAM({id},{off},{len},{fin})"), o => o.type_name().to_string() }).collect::<Vec<_>>().join(",")).unwrap_or_default();
                        all.push((t.seq, format!("RX  ep{} c{} {:?} pn{} t{}us len{} [{}]", t.ep, t.conn, t.space, t.pn, t.t_ns/1000, t.payload.len(), fr.chars().take(160).collect::<String>())));
                    }
                    for d in &out.obs.tx_dgrams { all.push((d.seq, format!("DG  ep{} c{} t{}us len{} first{:#x}", d.ep, d.conn, d.t_ns/1000, d.bytes.len(), d.bytes[0]))); }
                    for e in &out.obs.evs { all.push((e.seq, format!("EV  ep{} c{} t{}us {:?}", e.ep, e.conn, e.t_ns/1000, e.ev))); }
                    all.sort();
                    let skip = if std::env::var("VERIF_DEBUG_ALL").is_ok() { 0 } else { all.len().saturating_sub(120) };
                    for (s, l) in all.iter().skip(skip) { println!("{s} {l}"); }
                    if std::env::var("VERIF_DEBUG_NET").is_ok() {
                        let mut all: Vec<(u64, String)> = vec![];
                        for r in &out.net.log { all.push((r.t_send_ns, format!("SEND {:?} #{} {:?}->{:?} len{} drop {:?} deliveries {:?}", r.dir, r.ordinal, r.src, r.dst, r.len, r.drop_reason, r.deliveries.iter().map(|d| (d.t_us, d.len)).collect::<Vec<_>>()))); }
                        for (t, dst, src, len, label) in &out.net.delivered { all.push((*t, format!("DELIVER {:?}->{:?} len{} {:?}", src, dst, len, label))); }
                        all.sort();
                        for (t, l) in all { println!("N {t} {l}"); }
                    }
                    for r in out.net.log.iter().rev().take(12).rev() { println!("NET {:?} #{} t{}us len{} first{:#x} deliveries {:?} drop {:?}", r.dir, r.ordinal, r.t_send_ns/1000, r.len, r.first_byte, r.deliveries.iter().map(|d| (d.t_us, d.len)).collect::<Vec<_>>(), r.drop_reason); }
                }
                for (seq, ep, t, e) in out.obs.ep_evs.iter().take(20) {
                    println!("epev {seq} {ep} {t} {e:?}");
                }
            }
            0
        }
        "detdiff" => {
            // run one plan concurrently in several threads; on a hash mismatch dump both histories
            let property = it.next().cloned().unwrap_or_default();
            let seed: u64 = it.next().and_then(|s| s.parse().ok()).unwrap_or(0);
            let n: usize = it.next().and_then(|s| s.parse().ok()).unwrap_or(16);
            let dump = |out: &crate::run::RunOutput| -> String {
                let mut l: Vec<(u64, String)> = vec![];
                for e in &out.obs.evs { l.push((e.seq, format!("EV {e:?}"))); }
                for t in &out.obs.tx { l.push((t.seq, format!("TX ep{} c{} {:?} pn{} t{} h{:x} len{}", t.ep, t.conn, t.space, t.pn, t.t_ns, t.hash, t.payload.len()))); }
                for t in &out.obs.rx { l.push((t.seq, format!("RX ep{} c{} {:?} pn{} t{} h{:x}", t.ep, t.conn, t.space, t.pn, t.t_ns, t.hash))); }
                for d in &out.obs.tx_dgrams { l.push((d.seq, format!("DG ep{} c{} t{} len{} h{:x}", d.ep, d.conn, d.t_ns, d.bytes.len(), crate::kernel::hash_bytes(&d.bytes)))); }
                for d in &out.obs.rx_dgrams { l.push((d.seq, format!("RD ep{} t{} len{} port{}", d.ep, d.t_ns, d.len, d.remote_port))); }
                for (s, ep, t, e) in &out.obs.ep_evs { l.push((*s, format!("EP ep{ep} t{t} {e:?}"))); }
                l.sort();
                l.into_iter().map(|(s, x)| format!("{s} {x}\n")).collect()
            };
            let plan = gen::plan_for(&property, seed);
            let res: Vec<(u64, String)> = std::thread::scope(|s| {
                let hs: Vec<_> = (0..n)
                    .map(|_| {
                        let plan = plan.clone();
                        let property = property.clone();
                        s.spawn(move || {
                            crate::run::install_panic_hook();
                            let out = run::execute(&plan, needs_net_bytes(&property));
                            (oracle::history_hash(&out), dump(&out))
                        })
                    })
                    .collect();
                hs.into_iter().map(|h| h.join().unwrap()).collect()
            });
            let h0 = res[0].0;
            for (i, (h, d)) in res.iter().enumerate() {
                if *h != h0 {
                    std::fs::write("/tmp/detdiff_a.txt", &res[0].1).unwrap();
                    std::fs::write("/tmp/detdiff_b.txt", d).unwrap();
                    println!("MISMATCH run {i}: {h:016x} vs {h0:016x}; dumps in /tmp/detdiff_a.txt /tmp/detdiff_b.txt");
                    return 2;
                }
            }
            println!("all {n} equal {h0:016x}");
            0
        }
        "selfcheck" => {
            let n: u64 = it.next().and_then(|s| s.parse().ok()).unwrap_or(64);
            let mut bad = 0;
            for prop in ["C01", "C02", "C03"] {
                let hashes: Vec<(u64, u64)> = std::thread::scope(|s| {
                    let hs: Vec<_> = (0..n)
                        .map(|i| {
                            s.spawn(move || {
                                crate::run::install_panic_hook();
                                let plan = gen::plan_for(prop, 1000 + i);
                                (run_plan(&plan, prop).hash, run_plan(&plan, prop).hash)
                            })
                        })
                        .collect();
                    hs.into_iter().map(|h| h.join().unwrap()).collect()
                });
                for (i, (a, b)) in hashes.iter().enumerate() {
                    println!("{prop} {} {a:016x}", 1000 + i as u64);
                    if a != b {
                        bad += 1;
                        println!("MISMATCH {prop} seed {}", 1000 + i as u64);
                    }
                }
            }
            if bad > 0 {
                2
            } else {
                0
            }
        }
        _ => {
            eprintln!("usage: qsim check <ID> [--tier quick|thorough] [--seed N] [--runs N] [--budget-s S] [--replay F] | replay <file> | show <ID> <seed> | selfcheck [n]");
            2
        }
    }
}
