//! C07 oracles over one finished run: both implementations' views.
//!
//! Never excusable: a transport error code on either side, wrong / surplus stream bytes, a hang
//! on a healthy network, a panic inside s2n-quic.  Excusable only when a fault fired before the
//! connection died and the death is close enough to the fault window (reasoning of
//! qsim/src/oracle.rs c02 "excused"): handshake failure, incomplete streams, a close that was not
//! observed.  With zero faults fired nothing is excusable.

use crate::{
    obs::CloseKind,
    plan::*,
    run::RunOutput,
};
use simkit::{Fnv, Violation};
use std::collections::BTreeMap;

/// RFC 9000 20.1
pub fn transport_code_name(c: u64) -> String {
    match c {
        0x0 => "NO_ERROR".into(),
        0x1 => "INTERNAL_ERROR".into(),
        0x2 => "CONNECTION_REFUSED".into(),
        0x3 => "FLOW_CONTROL_ERROR".into(),
        0x4 => "STREAM_LIMIT_ERROR".into(),
        0x5 => "STREAM_STATE_ERROR".into(),
        0x6 => "FINAL_SIZE_ERROR".into(),
        0x7 => "FRAME_ENCODING_ERROR".into(),
        0x8 => "TRANSPORT_PARAMETER_ERROR".into(),
        0x9 => "CONNECTION_ID_LIMIT_ERROR".into(),
        0xa => "PROTOCOL_VIOLATION".into(),
        0xb => "INVALID_TOKEN".into(),
        0xc => "APPLICATION_ERROR".into(),
        0xd => "CRYPTO_BUFFER_EXCEEDED".into(),
        0xe => "KEY_UPDATE_ERROR".into(),
        0xf => "AEAD_LIMIT_REACHED".into(),
        0x10 => "NO_VIABLE_PATH".into(),
        c if (0x100..0x200).contains(&c) => format!("CRYPTO_ERROR({:#x})", c - 0x100),
        c => format!("{c:#x}"),
    }
}

#[derive(Clone, Debug, Default)]
pub struct Verdict {
    pub violations: Vec<Violation>,
    /// something went short of the plan but the faults explain it
    pub excused: Option<String>,
    /// run hit the virtual-time cap while still making progress: excluded, harness note
    pub slow: bool,
    pub harness_errors: Vec<String>,
    pub faults_fired: u64,
    pub nontrivial: bool,
    pub complete: bool,
    pub probes: BTreeMap<&'static str, u64>,
    pub trace_hash: u64,
}

fn viol(oracle: &str, sig: String, detail: String) -> Violation {
    Violation { property: "C07".into(), oracle: oracle.into(), detail, sig }
}

pub fn evaluate(o: &RunOutput) -> Verdict {
    let plan = &o.plan;
    let mut v = Verdict::default();
    let app = &o.app;
    v.harness_errors = app.harness_errors.clone();
    v.faults_fired = o.net.fired.iter().filter(|(k, _)| **k != "path_mtu_drop").map(|(_, n)| *n).sum();
    let first_fault = o.net.first_fault_ns;
    // the network was de facto healthy after the last fault that actually fired
    let tf_ns = o.net.last_fault_ns.unwrap_or(0).min(plan.faults_end_us * 1000);
    let max_idle_ns = plan.s2n.idle_timeout_ms.max(plan.quiche.idle_timeout_ms) * 1_000_000;

    // ---- both sides' view of how the connection ended
    // the connection under test is the first one the endpoint created; a late duplicate of the
    // client's first Initial can make an s2n-quic server create a second, short-lived one after
    // the first is gone (it never completes: quiche's connection no longer exists)
    let s2n_closed = o.obs.closed.iter().min_by_key(|c| c.id);
    let q = &app.q;
    let planned = plan.close_code;

    // ---- 1. transport error codes (never excusable)
    // APPLICATION_ERROR (0xc) is what RFC 9000 10.2.3 requires when the application closes
    // while only Initial/Handshake keys may be used; NO_ERROR (0x0) is not an error.
    let benign = |code: u64| code == 0x0 || code == 0xc;
    // Known limitation of quiche 0.29 (cid.rs, BoundedNonEmptyConnectionIdVecDeque::remove):
    // a RETIRE_CONNECTION_ID for an id that is already retired is answered with
    // OutOfIdentifiers -> PROTOCOL_VIOLATION when exactly one source id is left, although a
    // retransmitted / duplicated frame must be a no-op (RFC 9000 13.3: RETIRE_CONNECTION_ID is
    // retransmitted until acknowledged).  Only recognised when there is evidence that s2n-quic's
    // frame was indeed repeated: it sent the frame at least twice and a duplicating/reordering
    // fault fired or s2n-quic declared a packet lost (spurious retransmission).
    let repeated_retire = o.obs.counts.get("tx_retire_connection_id").copied().unwrap_or(0) >= 2
        && (o.net.fired.get("dup").copied().unwrap_or(0) > 0
            || o.net.fired.get("reorder").copied().unwrap_or(0) > 0
            || o.obs.counts.get("s2n_packet_lost").copied().unwrap_or(0) > 0);
    let quiche_dup_retire_limitation = q.recv_errs.contains_key("OutOfIdentifiers")
        && q.local_error.as_ref().map_or(false, |e| !e.is_app && e.code == 0xa)
        && repeated_retire;
    if quiche_dup_retire_limitation {
        v.probes.insert("quiche_rejects_repeated_retire_connection_id", 1);
        v.excused = Some("peer_limitation:quiche_out_of_identifiers_on_repeated_retire_connection_id".into());
    }
    if let Some(e) = &q.local_error {
        if !e.is_app && !benign(e.code) && !quiche_dup_retire_limitation {
            v.violations.push(viol(
                "c07.transport_error.by_quiche",
                format!("quiche_local:{}", transport_code_name(e.code)),
                format!(
                    "quiche closed the connection with transport error {} (reason {:?}) on what s2n-quic sent; s2n-quic's view: {:?}",
                    transport_code_name(e.code),
                    e.reason,
                    s2n_closed.map(|c| c.text.clone())
                ),
            ));
        }
    }
    if let Some(c) = s2n_closed {
        if c.kind == CloseKind::Transport && c.local && !benign(c.code.unwrap_or(0)) {
            v.violations.push(viol(
                "c07.transport_error.by_s2n",
                format!("s2n_local:{}", transport_code_name(c.code.unwrap_or(0))),
                format!(
                    "s2n-quic closed the connection with transport error {} on packets from quiche: {}; quiche's view: peer_error {:?} local_error {:?}",
                    transport_code_name(c.code.unwrap_or(0)),
                    c.text,
                    q.peer_error,
                    q.local_error
                ),
            ));
        }
        // a transport error received by s2n that quiche does not report as its own (quiche
        // snapshot missing) is still a transport error on the wire
        if c.kind == CloseKind::Transport && !c.local && !benign(c.code.unwrap_or(0)) && q.local_error.is_none() && !quiche_dup_retire_limitation {
            v.violations.push(viol(
                "c07.transport_error.by_quiche",
                format!("quiche_local:{}", transport_code_name(c.code.unwrap_or(0))),
                format!("s2n-quic received a transport CONNECTION_CLOSE from quiche: {}", c.text),
            ));
        }
    }
    if let Some(e) = &q.peer_error {
        let s2n_reported = s2n_closed.map_or(false, |c| c.kind == CloseKind::Transport && c.local);
        if !e.is_app && !benign(e.code) && !s2n_reported {
            v.violations.push(viol(
                "c07.transport_error.by_s2n",
                format!("s2n_local:{}", transport_code_name(e.code)),
                format!("quiche received a transport CONNECTION_CLOSE {} (reason {:?}) from s2n-quic", transport_code_name(e.code), e.reason),
            ));
        }
    }
    // A connection attempt that s2n-quic aborts with a transport error before a connection
    // context exists.  Stray packets that arrive after the connection is gone (a late duplicate
    // of the client's Initial) are reported through the same event and are harmless, so this
    // only counts when s2n-quic never had a connection at all.
    if app.s2n.t_connected_ns.is_none() && o.obs.closed.is_empty() && plan.role == Role::S2nServer {
        for e in &o.obs.attempt_failed {
            if e.contains("Transport") && e.contains("initiator: Local") && !e.contains("NO_ERROR") {
                v.violations.push(viol(
                    "c07.transport_error.by_s2n",
                    "s2n_local:attempt_failed".into(),
                    format!("s2n-quic aborted quiche's connection attempt with a transport error and never accepted a connection: {e}"),
                ));
                break;
            }
        }
    }

    // ---- 2. stream data
    let mut incomplete = vec![];
    let mut total_dirs = 0;
    for (id, p) in stream_ids(plan) {
        let mut dirs = vec![(p.opener, p.fwd)];
        if p.bidi {
            dirs.push((p.opener.peer(), p.rev));
        }
        for (sender, len) in dirs {
            total_dirs += 1;
            let r = app.streams.get(&(id, sender.idx())).cloned().unwrap_or_default();
            if let Some((off, what)) = &r.mismatch {
                v.violations.push(viol(
                    "c07.data.mismatch",
                    format!("mismatch:reader_{:?}", sender.peer()),
                    format!("stream {id} ({sender:?} -> {:?}): byte at stream offset {off} differs from the payload oracle: {what}", sender.peer()),
                ));
            }
            if r.read > len || (r.eof && r.read != len) {
                v.violations.push(viol(
                    "c07.data.length",
                    format!("length:reader_{:?}", sender.peer()),
                    format!(
                        "stream {id} ({sender:?} -> {:?}): reader got {} bytes{} but the sender wrote {len} and finished",
                        sender.peer(),
                        r.read,
                        if r.eof { " and a clean end of stream" } else { "" }
                    ),
                ));
            }
            if !(r.eof && r.read == len) {
                incomplete.push((id, sender, r.read, len, r.recv_err.clone(), r.send_err.clone()));
            }
        }
    }
    v.complete = incomplete.is_empty();

    // ---- 3. panic
    if let Some(p) = &o.panic {
        let first = p.lines().next().unwrap_or("").to_string();
        if p.contains("s2n_quic") || p.contains("s2n-quic") {
            v.violations.push(viol(
                "c07.panic",
                format!("panic:{}", first.chars().take(80).collect::<String>()),
                format!("panic inside the simulation (s2n-quic frames on the stack): {}", p.chars().take(2000).collect::<String>()),
            ));
        } else {
            v.harness_errors.push(format!("panic outside s2n-quic: {}", p.chars().take(600).collect::<String>()));
        }
    }

    // ---- datagram budget exceeded: the network was cut on purpose; only the oracles above
    // (transport errors seen so far, wrong data, panics) keep their meaning
    if o.net.overloaded_at_ns.is_some() {
        v.slow = true;
        v.trace_hash = trace_hash(o);
        return v;
    }

    // ---- 4. hang: tasks parked at the virtual-time cap
    let cap_ns = plan.time_cap_us * 1000;
    if !app.capped.is_empty() && o.panic.is_none() {
        // progress during the last 60 virtual seconds before the cap = slow, not hung
        // quiche gave up (idle timeout) after faults while s2n-quic is still alive at the cap:
        // s2n-quic's effective idle timeout is max(idle, 3 x PTO x 2^backoff) with the peer's
        // max_ack_delay inside the PTO (RFC 9000 10.1 asks for >= 3 x current PTO), which after
        // an outage with many consecutive PTOs can be hours.  The failure itself is excusable
        // (faults); the lingering is reported as an observation, not as a C07 violation.
        let q_death = q.t_closed_ns.unwrap_or(u64::MAX);
        let peer_gave_up_after_faults = q.is_closed
            && q.timed_out
            && first_fault.map_or(false, |f| f <= q_death)
            && q_death <= 8 * tf_ns + 2 * max_idle_ns + 5_000_000_000;
        if app.last_progress_ns + 60_000_000_000 >= cap_ns {
            v.slow = true;
        } else if peer_gave_up_after_faults {
            v.probes.insert("s2n_lingers_after_peer_idle_timeout", 1);
            v.excused = Some(format!(
                "peer_timed_out_s2n_lingers (first fault {} ms, quiche idle timeout at {} ms, s2n max PTO count {})",
                first_fault.unwrap_or(0) / 1_000_000,
                q_death / 1_000_000,
                o.obs.max_pto_count
            ));
        } else {
            let mut pend: Vec<String> = app.pending.iter().map(|(k, (w, t))| format!("{k}:{w}@{}ms", t / 1_000_000)).collect();
            pend.sort();
            // cause signature: datagrams larger than s2n-quic's receive buffer are truncated by
            // the IO layer and fail decryption (s2n-quic never advertises max_udp_payload_size)
            let undecryptable = o.obs.dropped.get("packet:DecryptionFailed").copied().unwrap_or(0);
            let oversize = plan.quiche.max_send_udp > plan.s2n.max_mtu as u64;
            let sig = if undecryptable >= 3 && oversize { "hang:oversize_datagrams_to_s2n" } else { "hang" };
            v.violations.push(viol(
                "c07.hang",
                sig.into(),
                format!(
                    "[s2n dropped {undecryptable} undecryptable packets; quiche max_send_udp_payload_size {} vs s2n receive buffer {}] tasks still parked at the virtual-time cap ({} s; network healthy since {} ms; last application progress at {} ms): {:?}; pending s2n operations {:?}; quiche established {} closed {}",
                    plan.quiche.max_send_udp,
                    plan.s2n.max_mtu,
                    cap_ns / 1_000_000_000,
                    tf_ns / 1_000_000,
                    app.last_progress_ns / 1_000_000,
                    app.capped,
                    pend,
                    q.established,
                    q.is_closed
                ),
            ));
        }
    }

    // ---- 5. shortfalls that only faults can excuse
    // what fell short of the plan?
    let mut short: Vec<(&'static str, String, String)> = vec![]; // (oracle, sig, detail)
    let s2n_connected = app.s2n.t_connected_ns.is_some();
    if !q.established || !s2n_connected {
        short.push((
            "c07.handshake",
            format!("handshake:quiche_{}_s2n_{}", q.established, s2n_connected),
            format!(
                "handshake did not complete: quiche is_established={} (local_error {:?}, peer_error {:?}, timed_out {}), s2n connected={} (connect error {:?}, closed {:?}, attempt failures {:?})",
                q.established,
                q.local_error,
                q.peer_error,
                q.timed_out,
                s2n_connected,
                app.s2n.connect_err,
                s2n_closed.map(|c| c.text.clone()),
                o.obs.attempt_failed
            ),
        ));
    } else if !incomplete.is_empty() {
        short.push((
            "c07.data.incomplete",
            "incomplete".into(),
            format!(
                "{}/{} stream directions incomplete, first: {:?}; s2n closed {:?}; quiche peer_error {:?} local_error {:?} timed_out {}",
                incomplete.len(),
                total_dirs,
                incomplete.iter().take(3).collect::<Vec<_>>(),
                s2n_closed.map(|c| c.text.clone()),
                q.peer_error,
                q.local_error,
                q.timed_out
            ),
        ));
    }
    // the planned close: the closing side must have closed with the planned application code
    // and the other side must have seen exactly that
    if q.established && s2n_connected && incomplete.is_empty() {
        let app_close_seen_by_quiche = q.peer_error.as_ref().map_or(false, |e| (e.is_app && e.code == planned) || (!e.is_app && e.code == 0xc));
        let app_close_seen_by_s2n = s2n_closed.map_or(false, |c| {
            !c.local && ((c.kind == CloseKind::Application && c.code == Some(planned)) || (c.kind == CloseKind::Transport && c.code == Some(0xc)))
        });
        match plan.close_by {
            Side::S2n => {
                let closed_locally = s2n_closed.map_or(false, |c| c.local && matches!(c.kind, CloseKind::Closed | CloseKind::Application));
                if app.s2n.t_close_called_ns.is_none() || !closed_locally {
                    short.push((
                        "c07.close",
                        "close:s2n_did_not_close".into(),
                        format!("s2n was to close with application code {planned}: close called {:?}, connection_closed {:?}", app.s2n.t_close_called_ns, s2n_closed.map(|c| c.text.clone())),
                    ));
                } else if !app_close_seen_by_quiche && o.obs.counts.get("tx_connection_close_long_header").copied().unwrap_or(0) > 0 && q.timed_out {
                    // s2n-quic closed while it still held Handshake keys and (RFC 9000 10.2.3)
                    // sent CONNECTION_CLOSE in a Handshake packet coalesced with a 1-RTT packet.
                    // quiche 0.29 drops the rest of a datagram after a packet it cannot decrypt
                    // (it has discarded its Handshake keys; RFC 9000 12.2 asks for the remaining
                    // packets to be processed) and idles out: a limitation of the peer, not of
                    // s2n-quic. Counted as a probe, never as a violation.
                    v.probes.insert("close_in_coalesced_handshake_packet_ignored_by_quiche", 1);
                } else if !app_close_seen_by_quiche {
                    short.push((
                        "c07.close",
                        format!("close:quiche_saw_{}", q.peer_error.as_ref().map_or("nothing".to_string(), |e| format!("{}{}", if e.is_app { "app:" } else { "transport:" }, e.code))),
                        format!(
                            "s2n closed with application code {planned} at {:?} ns but quiche saw peer_error {:?} (timed_out {}, local_error {:?})",
                            app.s2n.t_close_called_ns, q.peer_error, q.timed_out, q.local_error
                        ),
                    ));
                }
            }
            Side::Quiche => {
                let closed_locally = q.local_error.as_ref().map_or(false, |e| e.is_app && e.code == planned);
                if q.t_close_called_ns.is_none() || !closed_locally {
                    short.push((
                        "c07.close",
                        "close:quiche_did_not_close".into(),
                        format!("quiche was to close with application code {planned}: close called {:?}, local_error {:?}, peer_error {:?}, timed_out {}", q.t_close_called_ns, q.local_error, q.peer_error, q.timed_out),
                    ));
                } else if !app_close_seen_by_s2n {
                    short.push((
                        "c07.close",
                        format!("close:s2n_saw_{}", s2n_closed.map_or("nothing".to_string(), |c| format!("{:?}:{:?}", c.kind, c.code))),
                        format!("quiche closed with application code {planned} at {:?} ns but s2n saw {:?}", q.t_close_called_ns, s2n_closed.map(|c| c.text.clone())),
                    ));
                }
            }
        }
    }

    if quiche_dup_retire_limitation {
        short.clear();
    }
    if !short.is_empty() && app.capped.is_empty() && o.panic.is_none() {
        // deaths: instants at which either side gave up (not a clean / application close)
        let mut deaths: Vec<u64> = vec![];
        if let Some(c) = s2n_closed {
            if !matches!(c.kind, CloseKind::Closed | CloseKind::Application) {
                deaths.push(c.t_ns);
            }
        }
        if app.s2n.connect_err.is_some() {
            deaths.push(app.s2n.t_done_ns.unwrap_or(o.end_ns));
        }
        if q.timed_out || !q.established {
            deaths.push(q.t_closed_ns.unwrap_or(o.end_ns));
        }
        // a close that was sent but never arrived: the other side's idle timer is the death
        let first_death = deaths.iter().copied().min();
        let faulted_before = |t: u64| first_fault.map_or(false, |f| f <= t);
        let handshake_done_both = q.established && s2n_connected;
        let any_transport = v.violations.iter().any(|x| x.oracle.starts_with("c07.transport_error"));
        let only_close = short.iter().all(|s| s.0 == "c07.close");
        let t_close = match plan.close_by {
            Side::S2n => app.s2n.t_close_called_ns,
            Side::Quiche => q.t_close_called_ns,
        };
        let close_hit_by_fault = match (t_close, o.net.last_fault_ns) {
            (Some(tc), Some(lf)) => lf >= tc,
            _ => false,
        };
        let excused = match first_death {
            _ if v.faults_fired == 0 => false,
            None => {
                // nobody died, yet something is short: only a lost close can explain that (the
                // closing side went away after its closing period, the packet was dropped)
                short.iter().all(|s| s.0 == "c07.close") && first_fault.is_some()
            }
            Some(t) if !faulted_before(t) => false,
            // the planned close (or a retransmission of it) was itself hit by a fault: the other
            // side can only find out through its own idle timer, whenever that fires
            Some(_) if only_close && close_hit_by_fault => true,
            // backed-off probe timers may keep a healthy path silent for up to twice the outage,
            // and s2n-quic's idle period is max(idle, 3 x PTO x 2^backoff) (see O-C07-2)
            Some(t) if t <= 8 * tf_ns + 2 * max_idle_ns + 5_000_000_000 => true,
            Some(_) if !handshake_done_both => true,
            Some(_) => false,
        };
        if excused {
            v.excused = Some(format!("{} (first fault {} ms, deaths {:?} ms)", short[0].1, first_fault.unwrap_or(0) / 1_000_000, deaths.iter().map(|d| d / 1_000_000).collect::<Vec<_>>()));
        } else if !any_transport {
            for (oracle, sig, detail) in short {
                v.violations.push(viol(
                    oracle,
                    sig,
                    format!(
                        "{detail}; faults fired {} (first at {:?} ms, window ends {} ms), deaths at {:?} ms, run ended {} ms",
                        v.faults_fired,
                        first_fault.map(|t| t / 1_000_000),
                        tf_ns / 1_000_000,
                        deaths.iter().map(|d| d / 1_000_000).collect::<Vec<_>>(),
                        o.end_ns / 1_000_000
                    ),
                ));
            }
        }
    }

    // ---- reach probes
    let c = |k: &str| o.obs.counts.get(k).copied().unwrap_or(0);
    let qs = |k: &str| q.stats.get(k).copied().unwrap_or(0);
    let mut p = |k: &'static str, n: u64| {
        if n > 0 {
            v.probes.insert(k, n);
        }
    };
    p("s2n_packet_lost", c("s2n_packet_lost"));
    p("s2n_pto_fired", o.obs.max_pto_count as u64);
    p("quiche_lost", qs("lost"));
    p("quiche_retransmission", qs("retrans"));
    p("quiche_pto_fired", qs("pto"));
    p("s2n_blocked_on_stream_credit", c("tx_stream_data_blocked"));
    p("s2n_blocked_on_conn_credit", c("tx_data_blocked"));
    p("s2n_streams_blocked_sent", c("tx_streams_blocked"));
    p("quiche_blocked_on_stream_credit", qs("stream_data_blocked_sent") + c("rx_stream_data_blocked"));
    p("quiche_blocked_on_conn_credit", qs("data_blocked_sent") + c("rx_data_blocked"));
    p("quiche_streams_blocked_sent", c("rx_streams_blocked"));
    p("max_streams_sent_by_s2n", c("tx_max_streams"));
    p("max_streams_sent_by_quiche", c("rx_max_streams"));
    p("max_data_sent_by_s2n", c("tx_max_data"));
    p("max_data_sent_by_quiche", c("rx_max_data"));
    p("max_stream_data_sent_by_s2n", c("tx_max_stream_data"));
    p("max_stream_data_sent_by_quiche", c("rx_max_stream_data"));
    p("new_connection_id_from_quiche", c("rx_new_connection_id"));
    p("new_connection_id_from_s2n", c("tx_new_connection_id"));
    p("retire_connection_id_from_quiche", c("rx_retire_connection_id"));
    p("retire_connection_id_from_s2n", c("tx_retire_connection_id"));
    p("path_challenge_from_quiche", c("rx_path_challenge"));
    p("handshake_done_sent_by_s2n", c("tx_handshake_done"));
    p("handshake_done_sent_by_quiche", c("rx_handshake_done"));
    p("new_token_from_s2n", c("tx_new_token"));
    p("s2n_duplicate_packet", c("s2n_duplicate_packet"));
    p("s2n_mtu_raised", if o.obs.max_mtu > plan.s2n.initial_mtu { 1 } else { 0 });
    p("s2n_mtu_probe_lost", c("s2n_mtu_probe_lost"));
    p("quiche_pmtu_raised", if plan.quiche.discover_pmtu && qs("pmtu") > 1200 { 1 } else { 0 });
    p("retry_by_quiche", q.retry_sent as u64);
    p("retry_by_s2n", (plan.role == Role::S2nServer && plan.s2n.retry && s2n_connected) as u64);
    p("quiche_zero_length_cid", (q.zero_len_cid && q.established) as u64);
    p("quiche_cids_issued", q.cids_issued);
    p("close_converted_to_0x0c", (q.peer_error.as_ref().map_or(false, |e| !e.is_app && e.code == 0xc) || s2n_closed.map_or(false, |c| c.kind == CloseKind::Transport && c.code == Some(0xc))) as u64);
    p("s2n_undecryptable_or_dropped_packets", o.obs.dropped.values().sum());
    p("quiche_recv_errors", q.recv_errs.values().sum());
    p("closed_by_s2n", (plan.close_by == Side::S2n && app.s2n.t_close_called_ns.is_some()) as u64);
    p("closed_by_quiche", (plan.close_by == Side::Quiche && q.t_close_called_ns.is_some()) as u64);
    p("all_streams_complete", v.complete as u64);
    p("s2n_second_connection_from_late_duplicate_initial", (o.obs.closed.len() > 1) as u64);

    v.nontrivial = v.faults_fired > 0 && app.bytes_after_fault > 0;
    v.trace_hash = trace_hash(o);
    v
}

/// (time, direction, len, fate, delivery times) of every datagram plus application-level results
pub fn trace_hash(o: &RunOutput) -> u64 {
    let mut f = Fnv::default();
    for r in &o.net.log {
        f.u64(r.t_send_ns);
        f.u64(r.dir.idx() as u64);
        f.u64(r.len as u64);
        f.write(r.fate.as_bytes());
        for d in &r.deliveries {
            f.u64(*d);
        }
    }
    for ((id, s), r) in &o.app.streams {
        f.u64(*id);
        f.u64(*s);
        f.u64(r.written);
        f.u64(r.read);
        f.u64(r.fin_sent as u64 | (r.eof as u64) << 1 | (r.mismatch.is_some() as u64) << 2 | (r.recv_err.is_some() as u64) << 3 | (r.send_err.is_some() as u64) << 4);
        f.u64(r.t_eof_ns);
    }
    f.u64(o.app.q.t_established_ns.unwrap_or(0));
    f.u64(o.app.s2n.t_connected_ns.unwrap_or(0));
    f.u64(o.app.q.t_closed_ns.unwrap_or(0));
    if let Some(e) = &o.app.q.peer_error {
        f.u64(e.code ^ (e.is_app as u64) << 63);
    }
    if let Some(e) = &o.app.q.local_error {
        f.u64(e.code ^ (e.is_app as u64) << 62);
    }
    for c in &o.obs.closed {
        f.u64(c.t_ns);
        f.write(format!("{:?}{:?}{}", c.kind, c.code, c.local).as_bytes());
    }
    f.u64(o.end_ns);
    simkit::mix64(f.0)
}

/// human-readable trace for diffing two executions of one plan
pub fn trace_lines(o: &RunOutput) -> Vec<String> {
    let mut out = vec![];
    for r in &o.net.log {
        out.push(format!("{:>12} {:?} #{} len {} {} -> {:?}", r.t_send_ns, r.dir, r.ordinal, r.len, r.fate, r.deliveries));
    }
    out
}
