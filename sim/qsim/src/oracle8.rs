//! C09 / C10, end-to-end part: a shadow of RFC 9002's bookkeeping built only from the events of
//! a running endpoint (packet_sent, ack_range_received, packet_lost, key_space_discarded,
//! recovery_metrics, congestion, mtu_updated) and the cleartext of what it sent.  The component
//! level part (linksim) drives RttEstimator / loss::detect / Pto / the controllers directly; this
//! part covers the code that glues them together inside the transport (recovery manager, path,
//! transmission), which is private to s2n-quic-transport.

use crate::{
    kernel::Violation,
    obs::{Ev, Space},
    oracle::{Side, View},
    plan::*,
    wire::Frame,
};
use std::collections::BTreeMap;

fn viol(prop: &str, oracle: &str, sig: &str, detail: String) -> Violation {
    Violation { property: prop.into(), oracle: oracle.into(), detail, sig: sig.into() }
}

#[derive(Clone, Debug)]
struct Sent {
    t_ns: u64,
    len: u64,
    /// counts towards bytes in flight (s2n-quic: any frame other than ACK and PADDING)
    cc: bool,
    mode: u8,
    has_close: bool,
    resolved: Option<&'static str>,
    /// path the packet was sent on (None: cannot be told)
    path: Option<u64>,
}

#[derive(Clone, Copy, Debug, Default)]
struct Rtt {
    min: u64,
    smoothed: u64,
    latest: u64,
    var: u64,
    max_ack_delay: u64,
    pto_count: u32,
    cwnd: u64,
    bif: u64,
    t_ns: u64,
}

#[derive(Clone, Debug)]
enum Item {
    Tx(usize),
    Ev(usize),
}

pub struct Shadow {
    pub c09: Vec<Violation>,
    pub c10: Vec<Violation>,
    /// reach: number of bytes-in-flight comparisons, loss events judged, cwnd-limited sends judged
    pub bif_checks: u64,
    pub losses_judged: u64,
    pub sends_judged: u64,
    pub pto_intervals: u64,
    pub reductions: u64,
}

fn space_ix(s: Space) -> usize {
    match s {
        Space::Initial => 0,
        Space::Handshake => 1,
        Space::App => 2,
    }
}

pub fn shadow(v: &View) -> Shadow {
    let o = v.out;
    let mut sh = Shadow { c09: vec![], c10: vec![], bif_checks: 0, losses_judged: 0, sends_judged: 0, pto_intervals: 0, reductions: 0 };
    for idx in 0..o.plan.conns.len() as u32 {
        for role in [Role::Client, Role::Server] {
            let Some(side) = v.side(idx, role) else { continue };
            shadow_side(v, idx, role, side, &mut sh);
        }
    }
    sh
}

fn shadow_side(v: &View, idx: u32, role: Role, side: Side, sh: &mut Shadow) {
    let o = v.out;
    let who = format!("conn {idx} {role:?}");
    // one path only: with several paths the per-path controllers cannot be told apart from events
    let multi_path = o.obs.evs.iter().any(|e| {
        e.ep == side.ep
            && e.conn == side.conn
            && match &e.ev {
                Ev::Metrics { path, .. } | Ev::Congestion { path, .. } | Ev::MtuUpdated { path, .. } => *path != 0,
                _ => false,
            }
    });
    // merge interceptor records and events of this side by global sequence number
    let mut items: Vec<(u64, Item)> = vec![];
    for (i, t) in o.obs.tx.iter().enumerate() {
        if t.ep == side.ep && t.conn == side.conn {
            items.push((t.seq, Item::Tx(i)));
        }
    }
    for (i, e) in o.obs.evs.iter().enumerate() {
        if e.ep == side.ep && e.conn == side.conn {
            items.push((e.seq, Item::Ev(i)));
        }
    }
    items.sort_by_key(|x| x.0);

    // The packet_lost event names the *current* path, not the one the packet was sent on; the sent
    // path is recovered from the destination port of the datagram that carried the packet: ports
    // in order of first use are paths 0, 1 (plans of this family rebind a client at most once).
    let dgrams: Vec<(u64, u16)> = o.obs.tx_dgrams.iter().filter(|d| d.ep == side.ep && d.conn == side.conn).map(|d| (d.seq, d.remote_port)).collect();
    let mut ports: Vec<u16> = vec![];
    for (_, p) in &dgrams {
        if !ports.contains(p) {
            ports.push(*p);
        }
    }
    let max_path = o.obs.evs.iter().filter(|e| e.ep == side.ep && e.conn == side.conn).filter_map(|e| match &e.ev {
        Ev::Metrics { path, .. } | Ev::MtuUpdated { path, .. } => Some(*path),
        _ => None,
    }).max().unwrap_or(0);
    let paths_attributable = ports.len() <= 2 && max_path <= 1 && (ports.len() as u64) == max_path + 1;
    let path_of = |seq: u64| -> Option<u64> {
        if !paths_attributable {
            return None;
        }
        let i = dgrams.partition_point(|d| d.0 < seq);
        dgrams.get(i).and_then(|d| ports.iter().position(|p| *p == d.1)).map(|x| x as u64)
    };
    let bbr = match role {
        Role::Client => o.plan.cfg.client.cc == 1,
        Role::Server => o.plan.cfg.server.cc == 1,
    };
    let mut sent: [BTreeMap<u64, Sent>; 3] = Default::default();
    let mut pending_frames: BTreeMap<(usize, u64), (bool, bool, bool)> = BTreeMap::new(); // (space, pn) -> (cc, has_close, ack_eliciting)
    // bytes of packets discarded with their keys: s2n-quic subtracts them from the controller a
    // moment after the key_space_discarded event (same instant), visible one metrics event later
    let mut pending_discard: Vec<(u64, u32)> = vec![];
    let mut spaces_discarded = 0u32;
    let mut largest_acked: [Option<u64>; 3] = [None; 3];
    let mut bif: u64 = 0;
    let mut rtt_prev = Rtt::default();
    let mut have_metrics = false;
    let mut latest_seen: Vec<u64> = vec![];
    let mut smoothed0: Option<u64> = None;
    let mut mtu_hist: Vec<u64> = vec![];
    let mut cwnd_stale = false; // an MTU update may have changed the window since the last metrics
    let mut recovery_allowance = false;
    // losses whose time threshold is judged with the metrics that follow them
    let mut pending_loss: Vec<(usize, u64, u64, u64, u64, u64, Option<Rtt>)> = vec![]; // (space, pn, t_lost, t_sent, largest_acked, path, estimate of that path before)
    let mut rtt_by_path: BTreeMap<u64, Rtt> = BTreeMap::new();
    let mut latest_by_path: BTreeMap<u64, Vec<u64>> = BTreeMap::new();
    // PTO expiries: (pto_count, t_ns, base_without_ack_delay_ns)
    let mut pto_marks: Vec<(u32, u64, u64)> = vec![];
    let mut ack_eliciting_since_mark = false;

    let judge_time = |r: &Rtt, t_lost: u64, t_sent: u64| -> (bool, bool) {
        // (holds, holds with the 1 ms timer tolerance)
        let thr = (9 * r.smoothed.max(r.latest) * 1000 / 8).max(1_000_000);
        let age = t_lost.saturating_sub(t_sent);
        (age >= thr, age + 1_000_000 >= thr)
    };

    let mut pending_retry = false;
    let mut last_reduction_ns: Option<u64> = None;
    let mut congestion_signal = false;
    for (_, it) in &items {
        // RFC 9002 6.3: a client that accepts a Retry resets loss recovery and congestion control
        // state: everything sent so far is forgotten
        if pending_retry {
            pending_retry = false;
            let dropped = matches!(it, Item::Ev(i) if matches!(o.obs.evs[*i].ev, Ev::PacketDropped { .. }));
            if !dropped {
                let mut bytes = 0;
                for (_, s) in sent[0].iter_mut() {
                    if s.resolved.is_none() {
                        s.resolved = Some("discarded");
                        if s.cc {
                            bif = bif.saturating_sub(s.len);
                            bytes += s.len;
                        }
                    }
                }
                pending_discard.push((bytes, 0));
                pto_marks.clear();
            }
        }
        match it {
            Item::Tx(i) => {
                let t = &o.obs.tx[*i];
                let (cc, close, ae) = match &v.tx_frames[*i] {
                    Ok(fr) => (
                        fr.iter().any(|f| !matches!(f, Frame::Ack { .. } | Frame::Padding { .. })),
                        fr.iter().any(|f| matches!(f, Frame::ConnectionClose { .. })),
                        fr.iter().any(|f| !matches!(f, Frame::Ack { .. } | Frame::Padding { .. } | Frame::ConnectionClose { .. })),
                    ),
                    Err(_) => (true, false, true),
                };
                pending_frames.insert((space_ix(t.space), t.pn), (cc, close, ae));
            }
            Item::Ev(i) => {
                let e = &o.obs.evs[*i];
                match &e.ev {
                    Ev::PacketSent { space, pn, len, mode } => {
                        let sx = space_ix(*space);
                        let (cc, has_close, ae) = pending_frames.remove(&(sx, *pn)).unwrap_or((true, false, true));
                        // C10: a congestion controlled packet leaves only while bytes in flight are
                        // below the window (RFC 9002 7), except probes and the one packet allowed
                        // when entering recovery
                        // (normal transmissions and MTU probes; PTO probes and path validation are exempt)
                        if cc && (*mode == 0 || *mode == 2) && !has_close && have_metrics && !cwnd_stale && !multi_path {
                            sh.sends_judged += 1;
                            if bif >= rtt_prev.cwnd && !recovery_allowance {
                                sh.c10.push(viol(
                                    "C10",
                                    "c10.sent_while_congestion_limited",
                                    "cc_packet_sent_with_bif_ge_cwnd",
                                    format!("{who}: {space:?} pn {pn} ({len} bytes, normal transmission) sent at {} us with {bif} bytes in flight >= congestion window {}", e.t_ns / 1000, rtt_prev.cwnd),
                                ));
                            }
                            if bif >= rtt_prev.cwnd {
                                recovery_allowance = false;
                            }
                        }
                        if cc {
                            bif += *len as u64;
                        }
                        if ae {
                            ack_eliciting_since_mark = true;
                        }
                        if sent[sx].insert(*pn, Sent { t_ns: e.t_ns, len: *len as u64, cc, mode: *mode, has_close, resolved: None, path: path_of(e.seq) }).is_some() {
                            sh.c09.push(viol("C09", "c09.packet_number_sent_twice", "pn_reused", format!("{who}: {space:?} pn {pn} sent twice")));
                        }
                    }
                    Ev::AckRangeReceived { space, lo, hi, .. } => {
                        let sx = space_ix(*space);
                        largest_acked[sx] = Some(largest_acked[sx].map_or(*hi, |l| l.max(*hi)));
                        for (_, s) in sent[sx].range_mut(*lo..=*hi) {
                            match s.resolved {
                                None => {
                                    s.resolved = Some("acked");
                                    if s.cc {
                                        bif = bif.saturating_sub(s.len);
                                    }
                                }
                                // late acknowledgement of a packet declared lost: allowed, no effect
                                Some(_) => {}
                            }
                        }
                    }
                    Ev::PacketLost { space, pn, .. } => {
                        let sx = space_ix(*space);
                        let la = largest_acked[sx];
                        let Some(s) = sent[sx].get_mut(pn) else {
                            sh.c09.push(viol("C09", "c09.lost_unknown_packet", "lost_never_sent", format!("{who}: {space:?} pn {pn} declared lost but never sent")));
                            continue;
                        };
                        match s.resolved {
                            Some(k) => {
                                sh.c09.push(viol(
                                    "C09",
                                    "c09.packet_resolved_twice",
                                    &format!("lost_after_{k}"),
                                    format!("{who}: {space:?} pn {pn} declared lost at {} us although it was already {k}", e.t_ns / 1000),
                                ));
                                continue;
                            }
                            None => {
                                s.resolved = Some("lost");
                                if s.cc {
                                    bif = bif.saturating_sub(s.len);
                                }
                            }
                        }
                        sh.losses_judged += 1;
                        // a later packet must have been acknowledged
                        match la {
                            Some(l) if l > *pn => {
                                if l - *pn < 3 {
                                    if let Some(sp) = s.path {
                                        pending_loss.push((sx, *pn, e.t_ns, s.t_ns, l, sp, rtt_by_path.get(&sp).copied()));
                                    }
                                    // judged against the previous metrics now, against the next ones later
                                }
                            }
                            _ => {
                                sh.c09.push(viol(
                                    "C09",
                                    "c09.lost_without_later_ack",
                                    "lost_no_later_packet_acked",
                                    format!("{who}: {space:?} pn {pn} declared lost at {} us but no later packet had been acknowledged (largest acked {la:?})", e.t_ns / 1000),
                                ));
                            }
                        }
                    }
                    Ev::KeySpaceDiscarded { space } => {
                        let sx = space_ix(*space);
                        let mut bytes = 0u64;
                        for (_, s) in sent[sx].iter_mut() {
                            if s.resolved.is_none() {
                                s.resolved = Some("discarded");
                                if s.cc {
                                    bif = bif.saturating_sub(s.len);
                                    bytes += s.len;
                                }
                            }
                        }
                        pending_discard.push((bytes, 0));
                        spaces_discarded += 1;
                    }
                    Ev::RetryReceived => {
                        pending_retry = true;
                    }
                    // the closing / draining states no longer run loss recovery
                    Ev::Closed { .. } => break,
                    Ev::Congestion { .. } => {
                        congestion_signal = true;
                        recovery_allowance = true;
                    }
                    Ev::MtuUpdated { mtu, .. } => {
                        mtu_hist.push(*mtu as u64);
                        cwnd_stale = true;
                        // an MTU change re-initialises the controller (window and state)
                        last_reduction_ns = None;
                    }
                    Ev::Metrics { path, min_rtt_us, smoothed_us, latest_us, var_us, max_ack_delay_us, pto_count, cwnd, bif: m_bif, .. } => {
                        let r = Rtt {
                            min: *min_rtt_us,
                            smoothed: *smoothed_us,
                            latest: *latest_us,
                            var: *var_us,
                            max_ack_delay: *max_ack_delay_us,
                            pto_count: *pto_count,
                            cwnd: *cwnd as u64,
                            bif: *m_bif as u64,
                            t_ns: e.t_ns,
                        };
                        // losses by time threshold: judged with the estimate of the path the packet
                        // was sent on, either the one before or the one after the loss
                        let mut keep = vec![];
                        for (sx, pn, t_lost, t_sent, l, lpath, before) in pending_loss.drain(..) {
                            if lpath != *path {
                                keep.push((sx, pn, t_lost, t_sent, l, lpath, before));
                                continue;
                            }
                            let a = before.map_or((false, false), |b| judge_time(&b, t_lost, t_sent));
                            let b = judge_time(&r, t_lost, t_sent);
                            if !(a.0 || b.0) {
                                let tolerated = a.1 || b.1;
                                sh.c09.push(viol(
                                    "C09",
                                    "c09.lost_before_time_threshold",
                                    if tolerated { "time_threshold_shortened_by_timer_granularity" } else { "lost_before_packet_and_time_threshold" },
                                    format!(
                                        "{who}: space {sx} pn {pn} (path {lpath}) declared lost {} us after it was sent, largest acked {l} (< pn+3), 9/8 x max(srtt,latest) of its path = {:?} / {} us",
                                        (t_lost - t_sent) / 1000,
                                        before.map(|x| 9 * x.smoothed.max(x.latest) / 8),
                                        9 * r.smoothed.max(r.latest) / 8
                                    ),
                                ));
                            }
                        }
                        pending_loss = keep;
                        rtt_by_path.insert(*path, r);
                        if !multi_path {
                            // bytes in flight equals the unresolved congestion-controlled packets
                            sh.bif_checks += 1;
                            // discards not yet subtracted (oldest are subtracted first)
                            let mut matched = r.bif == bif && pending_discard.iter().all(|d| d.0 == 0);
                            if !matched {
                                for k in (0..=pending_discard.len()).rev() {
                                    let rest: u64 = pending_discard[k..].iter().map(|d| d.0).sum();
                                    if r.bif == bif + rest {
                                        pending_discard.drain(..k);
                                        matched = true;
                                        break;
                                    }
                                }
                            } else {
                                pending_discard.clear();
                            }
                            for d in pending_discard.iter_mut() {
                                d.1 += 1;
                            }
                            if matched && pending_discard.iter().any(|d| d.1 > 3 && d.0 > 0) {
                                sh.c09.push(viol(
                                    "C09",
                                    "c09.bytes_in_flight_mismatch",
                                    "discarded_bytes_never_subtracted",
                                    format!("{who}: {} bytes of packets discarded with their keys are still counted in bytes_in_flight ({}) four metrics events later ({} us)", pending_discard.iter().map(|d| d.0).sum::<u64>(), r.bif, e.t_ns / 1000),
                                ));
                                pending_discard.clear();
                                bif = r.bif;
                            }
                            if !matched {
                                pending_discard.clear();
                                sh.c09.push(viol(
                                    "C09",
                                    "c09.bytes_in_flight_mismatch",
                                    if r.bif > bif { "bif_leak" } else { "bif_too_small" },
                                    format!("{who}: recovery_metrics at {} us report bytes_in_flight {} but the unresolved congestion-controlled packets sum to {bif}", e.t_ns / 1000, r.bif),
                                ));
                                // resynchronise so that one slip is reported once
                                bif = r.bif;
                            }
                            // C10 (CUBIC): a loss or ECN signal shrinks the window at most once per
                            // round trip: the recovery period only ends when a packet sent after
                            // its start is acknowledged, i.e. at least one RTT sample >= min_rtt
                            // later. Collapses to the minimum window (persistent congestion) and
                            // rescaling after an MTU change are something else.
                            // (only reductions that coincide with a congestion signal count: in
                            // congestion avoidance s2n-quic's CUBIC can also lower the window by
                            // its own window function, without any signal)
                            if !bbr && have_metrics && !cwnd_stale && r.cwnd < rtt_prev.cwnd && congestion_signal {
                                let floor = 2 * 1200u64.max(mtu_hist.last().copied().unwrap_or(1200));
                                // the multiplicative decrease itself (beta_cubic = 0.7): other
                                // decreases in the same batch come from the window function
                                let target = rtt_prev.cwnd * 7 / 10;
                                // exact (beta is applied to the window as it was before this batch;
                                // a window function decrease in congestion avoidance can come
                                // within a fraction of a percent of 0.7, so no tolerance)
                                let is_md = r.cwnd.abs_diff(target) <= 2;
                                if r.cwnd > floor && is_md {
                                    if let Some(t0) = last_reduction_ns {
                                        let gap = e.t_ns - t0;
                                        if gap + 1_000_000 < r.min * 1000 {
                                            sh.c10.push(viol(
                                                "C10",
                                                "c10.window_reduced_twice_in_one_rtt",
                                                "two_reductions_within_min_rtt",
                                                format!("{who}: congestion window reduced {} -> {} at {} us, only {} us after the previous reduction (min_rtt {} us)", rtt_prev.cwnd, r.cwnd, e.t_ns / 1000, gap / 1000, r.min),
                                            ));
                                        }
                                    }
                                    last_reduction_ns = Some(e.t_ns);
                                    sh.reductions += 1;
                                }
                            }
                            // C10: window never below the controller's minimum
                            let mtu_min = mtu_hist.iter().rev().take(2).copied().min().unwrap_or(1200).min(1200).max(1200);
                            let k = if bbr { 4 } else { 2 };
                            if r.cwnd < k * mtu_min {
                                sh.c10.push(viol(
                                    "C10",
                                    "c10.window_below_minimum",
                                    "cwnd_lt_min",
                                    format!("{who}: congestion window {} < {k} x {mtu_min} at {} us", r.cwnd, e.t_ns / 1000),
                                ));
                            }
                        }
                        // RTT estimates stay within the samples (per path)
                        let seen = latest_by_path.entry(*path).or_default();
                        if seen.is_empty() {
                            seen.push(r.smoothed);
                        }
                        seen.push(r.latest);
                        let lo = seen.iter().copied().min().unwrap_or(0);
                        let hi = seen.iter().copied().max().unwrap_or(u64::MAX);
                        if r.smoothed + 1 < lo || r.smoothed > hi + 1 {
                            sh.c09.push(viol(
                                "C09",
                                "c09.rtt_outside_samples",
                                "smoothed_rtt_outside_sample_range",
                                format!("{who}: path {path} smoothed_rtt {} us outside the samples seen [{lo}, {hi}] at {} us", r.smoothed, e.t_ns / 1000),
                            ));
                        }
                        if r.min > r.latest + 1 && seen.len() > 2 {
                            sh.c09.push(viol(
                                "C09",
                                "c09.rtt_outside_samples",
                                "min_rtt_above_latest",
                                format!("{who}: path {path} min_rtt {} us > latest_rtt {} us at {} us", r.min, r.latest, e.t_ns / 1000),
                            ));
                        }
                        // PTO: consecutive expiries back off exponentially and never fire faster
                        // than the granularity
                        if have_metrics && !multi_path && r.pto_count == rtt_prev.pto_count + 1 {
                            let base = (r.smoothed + (4 * r.var).max(1000)) * 1000;
                            if let Some((c0, t0, base0)) = pto_marks.last().copied() {
                                // only once the application space is the only one left (the Initial and
                                // Handshake spaces arm the same timer from their own send times) and
                                // when something ack-eliciting left at or after the previous expiry
                                if c0 + 1 == r.pto_count && base0 == base && spaces_discarded >= 2 && ack_eliciting_since_mark {
                                    sh.pto_intervals += 1;
                                    let interval = e.t_ns - t0;
                                    // the timer was armed at (or after) the previous expiry for
                                    // base x 2^c0 at least
                                    let need = base.saturating_mul(1u64 << c0.min(30));
                                    if interval + 1_000_000 < need || interval < 1_000_000 {
                                        sh.c09.push(viol(
                                            "C09",
                                            "c09.pto_backoff",
                                            "pto_interval_shorter_than_backoff",
                                            format!("{who}: PTO expiries {c0} -> {} are {} us apart, backoff requires >= {} us (base {} us)", r.pto_count, interval / 1000, need / 1000, base / 1000),
                                        ));
                                    }
                                }
                            }
                            if spaces_discarded >= 2 {
                                pto_marks.push((r.pto_count, e.t_ns, base));
                            }
                            ack_eliciting_since_mark = false;
                        } else if have_metrics && r.pto_count < rtt_prev.pto_count {
                            pto_marks.clear();
                        }
                        congestion_signal = false;
                        rtt_prev = r;
                        have_metrics = true;
                        cwnd_stale = false;
                    }
                    _ => {}
                }
            }
        }
    }
    // losses still waiting for a following metrics event of their path: judge against the last
    // estimate of that path
    for (sx, pn, t_lost, t_sent, l, lpath, before) in pending_loss.drain(..) {
        let Some(b) = before.or(rtt_by_path.get(&lpath).copied()) else { continue };
        let a = judge_time(&b, t_lost, t_sent);
        if !a.0 {
            sh.c09.push(viol(
                "C09",
                "c09.lost_before_time_threshold",
                if a.1 { "time_threshold_shortened_by_timer_granularity" } else { "lost_before_packet_and_time_threshold" },
                format!("{who}: space {sx} pn {pn} (path {lpath}) declared lost {} us after it was sent, largest acked {l}", (t_lost - t_sent) / 1000),
            ));
        }
    }
    let _ = (smoothed0, latest_seen);
}

pub fn c09(v: &View) -> Vec<Violation> {
    shadow(v).c09
}

pub fn c10(v: &View) -> Vec<Violation> {
    shadow(v).c10
}
