//! Reference position set for the reassembler model: the set of stream positions written so
//! far.  Semantically a `BTreeSet<u64>` of byte positions (the byte *value* at a position is a
//! pure function of the position, see `common::payload`), stored as disjoint half-open ranges so
//! that 64 KiB writes do not cost 64 Ki map entries.  `selftest` compares it against a literal
//! `BTreeSet<u64>` on random operations at start-up.

use std::collections::BTreeMap;

#[derive(Clone, Debug, Default, PartialEq, Eq)]
pub struct RangeSet {
    /// start -> end (exclusive); disjoint, non-adjacent
    m: BTreeMap<u64, u64>,
}

impl RangeSet {
    pub fn is_empty(&self) -> bool {
        self.m.is_empty()
    }

    pub fn clear(&mut self) {
        self.m.clear();
    }

    pub fn insert(&mut self, mut a: u64, mut b: u64) {
        if a >= b {
            return;
        }
        // absorb every range that overlaps or touches [a,b)
        let touching: Vec<(u64, u64)> = self
            .m
            .range(..=b)
            .rev()
            .take_while(|(_, &e)| e >= a)
            .map(|(&s, &e)| (s, e))
            .collect();
        for (s, e) in touching {
            if e >= a && s <= b {
                a = a.min(s);
                b = b.max(e);
                self.m.remove(&s);
            }
        }
        self.m.insert(a, b);
    }

    pub fn remove(&mut self, a: u64, b: u64) {
        if a >= b {
            return;
        }
        let hit: Vec<(u64, u64)> = self
            .m
            .range(..b)
            .rev()
            .take_while(|(_, &e)| e > a)
            .map(|(&s, &e)| (s, e))
            .collect();
        for (s, e) in hit {
            if e > a && s < b {
                self.m.remove(&s);
                if s < a {
                    self.m.insert(s, a);
                }
                if e > b {
                    self.m.insert(b, e);
                }
            }
        }
    }

    /// remove every position below x
    pub fn remove_below(&mut self, x: u64) {
        self.remove(0, x);
    }

    pub fn contains(&self, p: u64) -> bool {
        self.m.range(..=p).next_back().is_some_and(|(_, &e)| e > p)
    }

    /// end (exclusive) of the run of present positions starting at `from`; `from` itself if
    /// `from` is absent
    pub fn run_end(&self, from: u64) -> u64 {
        match self.m.range(..=from).next_back() {
            Some((_, &e)) if e > from => e,
            _ => from,
        }
    }

    pub fn intersects(&self, a: u64, b: u64) -> bool {
        if a >= b {
            return false;
        }
        self.m.range(..b).next_back().is_some_and(|(_, &e)| e > a)
    }

    pub fn covers(&self, a: u64, b: u64) -> bool {
        a >= b || self.run_end(a) >= b
    }

    pub fn iter(&self) -> impl Iterator<Item = (u64, u64)> + '_ {
        self.m.iter().map(|(&s, &e)| (s, e))
    }
}

/// run of positions present in `a` ∪ `b` starting at `from`
pub fn union_run_end(a: &RangeSet, b: &RangeSet, from: u64) -> u64 {
    let mut p = from;
    loop {
        let q = a.run_end(p).max(b.run_end(p));
        if q == p {
            return p;
        }
        p = q;
    }
}

/// compares RangeSet against a literal BTreeSet on seeded random operations
pub fn selftest() -> Result<(), String> {
    use std::collections::BTreeSet;
    let mut rng = simkit::Rng::new(0x5e1f7e57);
    for round in 0..300 {
        let mut rs = RangeSet::default();
        let mut bs: BTreeSet<u64> = BTreeSet::new();
        for step in 0..60 {
            let a = rng.below(120);
            let b = a + rng.below(30);
            match rng.below(3) {
                0 | 1 => {
                    rs.insert(a, b);
                    for p in a..b {
                        bs.insert(p);
                    }
                }
                _ => {
                    rs.remove(a, b);
                    for p in a..b {
                        bs.remove(&p);
                    }
                }
            }
            let flat: Vec<u64> = rs.iter().flat_map(|(s, e)| s..e).collect();
            let want: Vec<u64> = bs.iter().copied().collect();
            if flat != want {
                return Err(format!("rangeset selftest: content differs in round {round} step {step}"));
            }
            let mut prev_end: Option<u64> = None;
            for (s, e) in rs.iter() {
                if s >= e || prev_end.is_some_and(|p| p >= s) {
                    return Err(format!("rangeset selftest: not canonical in round {round} step {step}"));
                }
                prev_end = Some(e);
            }
            for p in 0..160u64 {
                if rs.contains(p) != bs.contains(&p) {
                    return Err("rangeset selftest: contains".into());
                }
                let mut q = p;
                while bs.contains(&q) {
                    q += 1;
                }
                if rs.run_end(p) != q {
                    return Err("rangeset selftest: run_end".into());
                }
            }
            let (x, y) = (rng.below(150), rng.below(150));
            let (x, y) = (x.min(y), x.max(y));
            if rs.intersects(x, y) != (x..y).any(|p| bs.contains(&p)) {
                return Err("rangeset selftest: intersects".into());
            }
            if rs.covers(x, y) != (x..y).all(|p| bs.contains(&p)) {
                return Err("rangeset selftest: covers".into());
            }
        }
    }
    Ok(())
}
