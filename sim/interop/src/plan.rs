//! Plan = everything that decides one interop execution (pure data = replay file) and the
//! swarm generator `plan_for(seed)`.

use serde::{Deserialize, Serialize};
use simkit::{hashn, Rng};

/// which role s2n-quic plays (quiche plays the other one)
#[derive(Clone, Copy, Debug, Serialize, Deserialize, PartialEq, Eq, PartialOrd, Ord)]
pub enum Role {
    S2nServer,
    S2nClient,
}

#[derive(Clone, Copy, Debug, Serialize, Deserialize, PartialEq, Eq, PartialOrd, Ord, Hash)]
pub enum Side {
    S2n,
    Quiche,
}

impl Side {
    pub fn peer(self) -> Side {
        match self {
            Side::S2n => Side::Quiche,
            Side::Quiche => Side::S2n,
        }
    }
    pub fn idx(self) -> u64 {
        match self {
            Side::S2n => 0,
            Side::Quiche => 1,
        }
    }
}

#[derive(Clone, Debug, Serialize, Deserialize, PartialEq)]
pub struct S2nCfg {
    /// 0 = library default
    pub data_window: u64,
    pub bidi_local_window: u64,
    pub bidi_remote_window: u64,
    pub uni_window: u64,
    pub max_local_bidi: u64,
    pub max_remote_bidi: u64,
    pub max_local_uni: u64,
    pub max_remote_uni: u64,
    pub idle_timeout_ms: u64,
    pub max_ack_delay_ms: u64,
    pub ack_elicitation_interval: u8,
    pub ack_ranges_limit: u8,
    pub max_active_cids: u64,
    /// 0 = library default
    pub max_send_buffer: u32,
    pub initial_rtt_ms: u64,
    pub stream_batch: u8,
    /// IP-level MTUs (UDP payload = mtu - 28)
    pub base_mtu: u16,
    pub initial_mtu: u16,
    pub max_mtu: u16,
    /// 0 = cubic, 1 = bbr
    pub cc: u8,
    pub cid_len: u8,
    /// s2n server only: answer the first Initial with a Retry
    pub retry: bool,
    /// application read pause: after every `read_pause_every` chunks sleep `read_pause_us`
    pub read_pause_every: u32,
    pub read_pause_us: u64,
}

impl Default for S2nCfg {
    fn default() -> Self {
        S2nCfg {
            data_window: 0,
            bidi_local_window: 0,
            bidi_remote_window: 0,
            uni_window: 0,
            max_local_bidi: 100,
            max_remote_bidi: 100,
            max_local_uni: 100,
            max_remote_uni: 100,
            idle_timeout_ms: 30_000,
            max_ack_delay_ms: 25,
            ack_elicitation_interval: 2,
            ack_ranges_limit: 10,
            max_active_cids: 3,
            max_send_buffer: 0,
            initial_rtt_ms: 333,
            stream_batch: 1,
            base_mtu: 1228,
            initial_mtu: 1228,
            max_mtu: 1500,
            cc: 0,
            cid_len: 16,
            retry: false,
            read_pause_every: 0,
            read_pause_us: 0,
        }
    }
}

#[derive(Clone, Debug, Serialize, Deserialize, PartialEq)]
pub struct QuicheCfg {
    pub initial_max_data: u64,
    pub bidi_local: u64,
    pub bidi_remote: u64,
    pub uni: u64,
    pub max_streams_bidi: u64,
    pub max_streams_uni: u64,
    pub max_recv_udp: u64,
    pub max_send_udp: u64,
    pub ack_delay_exponent: u64,
    pub max_ack_delay_ms: u64,
    pub active_cid_limit: u64,
    pub idle_timeout_ms: u64,
    pub cid_len: u8,
    /// 0 = reno, 1 = cubic, 2 = bbr2 (gcongestion)
    pub cc: u8,
    pub discover_pmtu: bool,
    /// quiche server only: stateless Retry before accepting
    pub retry: bool,
    /// issue spare connection ids (NEW_CONNECTION_ID) once established
    pub issue_cids: bool,
    pub max_connection_window: u64,
    pub max_stream_window: u64,
    pub initial_rtt_ms: u64,
    /// bytes offered per stream_send call
    pub send_chunk: u32,
    /// bytes requested per stream_recv call
    pub read_buf: u32,
    pub disable_migration: bool,
    pub send_streams_blocked: bool,
}

impl Default for QuicheCfg {
    fn default() -> Self {
        QuicheCfg {
            initial_max_data: 10_000_000,
            bidi_local: 1_000_000,
            bidi_remote: 1_000_000,
            uni: 1_000_000,
            max_streams_bidi: 100,
            max_streams_uni: 100,
            max_recv_udp: 65527,
            max_send_udp: 1200,
            ack_delay_exponent: 3,
            max_ack_delay_ms: 25,
            active_cid_limit: 2,
            idle_timeout_ms: 30_000,
            cid_len: 16,
            cc: 1,
            discover_pmtu: false,
            retry: false,
            issue_cids: false,
            max_connection_window: 24 * 1024 * 1024,
            max_stream_window: 16 * 1024 * 1024,
            initial_rtt_ms: 333,
            send_chunk: 16384,
            read_buf: 65536,
            disable_migration: true,
            send_streams_blocked: false,
        }
    }
}

#[derive(Clone, Debug, Serialize, Deserialize, PartialEq)]
pub struct StreamPlan {
    pub opener: Side,
    pub bidi: bool,
    /// opener -> acceptor bytes
    pub fwd: u64,
    /// acceptor -> opener bytes (bidi only)
    pub rev: u64,
    /// s2n-side send chunk size
    pub chunk: u32,
    /// delay before the opener opens this stream (after the previous one)
    pub open_delay_us: u64,
}

#[derive(Clone, Copy, Debug, Serialize, Deserialize, PartialEq, Eq, PartialOrd, Ord, Hash)]
pub enum Dir {
    /// datagrams sent by the client (whichever implementation plays it)
    C2S,
    S2C,
}

impl Dir {
    pub fn idx(self) -> usize {
        match self {
            Dir::C2S => 0,
            Dir::S2C => 1,
        }
    }
}

#[derive(Clone, Debug, Serialize, Deserialize, PartialEq)]
pub struct Fault {
    pub when: When,
    pub action: Action,
}

#[derive(Clone, Debug, Serialize, Deserialize, PartialEq)]
pub enum When {
    /// n-th datagram (0-based) emitted in that direction
    Nth { dir: Dir, n: u64 },
    /// every datagram emitted (in `dir`, or both) inside the window whose stateless hash falls
    /// below `permille`
    Window { dir: Option<Dir>, from_us: u64, to_us: u64, permille: u32, key: u64 },
}

#[derive(Clone, Debug, Serialize, Deserialize, PartialEq)]
pub enum Action {
    Drop,
    /// deliver one extra copy `extra_us` later
    Dup { extra_us: u64 },
    /// add delay (reorders behind later datagrams)
    Delay { us: u64 },
    /// drop if the datagram is larger than `limit` bytes (path MTU reduction)
    MtuDrop { limit: u16 },
}

impl Action {
    pub fn kind(&self) -> &'static str {
        match self {
            Action::Drop => "drop",
            Action::Dup { .. } => "dup",
            Action::Delay { .. } => "reorder",
            Action::MtuDrop { .. } => "mtu_drop",
        }
    }
}

#[derive(Clone, Debug, Serialize, Deserialize, PartialEq)]
pub struct Plan {
    pub seed: u64,
    pub role: Role,
    pub s2n: S2nCfg,
    pub quiche: QuicheCfg,
    pub streams: Vec<StreamPlan>,
    pub close_by: Side,
    pub close_code: u64,
    pub base_delay_us: u64,
    pub jitter_us: u64,
    /// permanent path limit on the UDP payload size (datagrams above are dropped; counted as
    /// fault kind `mtu_drop` but not as a connection-threatening fault)
    pub path_mtu: u16,
    pub faults: Vec<Fault>,
    /// the network is perfect (apart from `path_mtu`) from this instant on
    pub faults_end_us: u64,
    pub data_key: u64,
    pub delay_key: u64,
    pub rand_key: u64,
    pub time_cap_us: u64,
    /// never set by the generator: lets quiche be configured with datagrams larger than
    /// s2n-quic's receive buffer (finding F-C07-1, see findings/)
    #[serde(default)]
    pub allow_oversize_to_s2n: bool,
}

impl Plan {
    pub fn client_side(&self) -> Side {
        match self.role {
            Role::S2nServer => Side::Quiche,
            Role::S2nClient => Side::S2n,
        }
    }
    pub fn total_bytes(&self) -> u64 {
        self.streams.iter().map(|s| s.fwd + if s.bidi { s.rev } else { 0 }).sum()
    }
}

/// RFC 9000 2.1 stream ids
pub fn stream_id(opener_is_client: bool, bidi: bool, index: u64) -> u64 {
    let low = match (opener_is_client, bidi) {
        (true, true) => 0,
        (false, true) => 1,
        (true, false) => 2,
        (false, false) => 3,
    };
    index * 4 + low
}

/// (stream id, plan) for every planned stream
pub fn stream_ids(plan: &Plan) -> Vec<(u64, StreamPlan)> {
    let mut out = vec![];
    let mut counters = std::collections::BTreeMap::new();
    for s in &plan.streams {
        let c = counters.entry((s.opener, s.bidi)).or_insert(0u64);
        let id = stream_id(s.opener == plan.client_side(), s.bidi, *c);
        *c += 1;
        out.push((id, s.clone()));
    }
    out
}

const WINDOWS: &[u64] = &[64, 300, 1200, 2000, 4096, 10_000, 16 * 1024, 64 * 1024, 256 * 1024, 1 << 20, 4 << 20];

fn pick_window(r: &mut Rng, small: bool) -> u64 {
    if small {
        r.pick(&WINDOWS[..7])
    } else {
        match r.below(4) {
            0 => r.pick(&WINDOWS[..7]),
            _ => r.pick(&WINDOWS[5..]),
        }
    }
}

fn gen_s2n(r: &mut Rng, small: bool) -> S2nCfg {
    let mut c = S2nCfg::default();
    let pw = |r: &mut Rng| -> u64 {
        if !small && r.chance(1, 2) {
            0
        } else {
            pick_window(r, small)
        }
    };
    c.data_window = pw(r);
    c.bidi_local_window = pw(r);
    c.bidi_remote_window = pw(r);
    c.uni_window = pw(r);
    if r.chance(1, 3) {
        c.max_local_bidi = r.pick(&[1, 2, 100]);
        c.max_remote_bidi = r.pick(&[1, 2, 3, 100]);
        c.max_local_uni = r.pick(&[1, 2, 100]);
        c.max_remote_uni = r.pick(&[1, 2, 3, 100]);
    }
    c.max_ack_delay_ms = r.pick(&[25, 25, 1, 5, 100]);
    c.ack_elicitation_interval = r.pick(&[2, 2, 1, 4, 10]);
    c.ack_ranges_limit = r.pick(&[10, 10, 2, 3, 50]);
    c.max_active_cids = r.pick(&[3, 3, 2, 4, 8]);
    c.max_send_buffer = r.pick(&[0, 0, 1000, 4096, 65536]) as u32;
    c.initial_rtt_ms = r.pick(&[333, 333, 10, 50, 1000]);
    c.stream_batch = r.pick(&[1, 1, 1, 4]);
    c.idle_timeout_ms = r.pick(&[30_000, 30_000, 5_000, 10_000, 60_000]);
    c.max_mtu = r.pick(&[1500u16, 1500, 1228, 1300, 1400, 1628]);
    c.base_mtu = 1228;
    c.initial_mtu = if r.chance(1, 3) { r.pick(&[1228u16, 1300, 1400, 1500]).min(c.max_mtu) } else { 1228 };
    c.cc = r.below(2) as u8;
    c.cid_len = r.pick(&[16u8, 16, 4, 8, 20]);
    c.retry = r.chance(1, 8);
    if r.chance(1, 5) {
        c.read_pause_every = r.pick(&[1u32, 3, 10]);
        c.read_pause_us = r.pick(&[100u64, 5_000, 50_000]);
    }
    c
}

fn gen_quiche(r: &mut Rng, small: bool, role: Role) -> QuicheCfg {
    let mut c = QuicheCfg::default();
    c.initial_max_data = pick_window(r, small);
    c.bidi_local = pick_window(r, small);
    c.bidi_remote = pick_window(r, small);
    c.uni = pick_window(r, small);
    if r.chance(1, 3) {
        c.max_streams_bidi = r.pick(&[1, 2, 3, 100]);
        c.max_streams_uni = r.pick(&[1, 2, 3, 100]);
    }
    c.max_recv_udp = r.pick(&[65527u64, 65527, 1200, 1252, 1350, 1472, 1500, 1600]);
    c.max_send_udp = r.pick(&[1200u64, 1200, 1252, 1350, 1350, 1472, 1500, 1600]);
    c.ack_delay_exponent = r.pick(&[3u64, 3, 0, 1, 8, 10, 20]);
    c.max_ack_delay_ms = r.pick(&[25u64, 25, 1, 5, 100, 1000]);
    c.active_cid_limit = r.pick(&[2u64, 2, 3, 4, 8]);
    c.idle_timeout_ms = r.pick(&[30_000u64, 30_000, 5_000, 10_000, 60_000]);
    // a zero-length source connection id is legal for either role (RFC 9000 5.1)
    c.cid_len = r.pick(&[16u8, 16, 0, 0, 4, 8, 20]);
    c.cc = r.below(3) as u8;
    c.discover_pmtu = r.chance(1, 4);
    c.retry = role == Role::S2nClient && r.chance(1, 6);
    c.issue_cids = c.cid_len > 0 && r.chance(1, 2);
    c.max_connection_window = r.pick(&[24u64 << 20, 24 << 20, 1 << 20, 64 << 10]).max(c.initial_max_data);
    c.max_stream_window = r
        .pick(&[16u64 << 20, 16 << 20, 1 << 20, 64 << 10])
        .max(c.bidi_local)
        .max(c.bidi_remote)
        .max(c.uni)
        .min(c.max_connection_window.max(c.bidi_local).max(c.bidi_remote).max(c.uni));
    c.initial_rtt_ms = r.pick(&[333u64, 333, 10, 50, 1000]);
    c.send_chunk = r.pick(&[16384u32, 16384, 1, 100, 1200, 4096, 65536, 1 << 20]);
    c.read_buf = r.pick(&[65536u32, 65536, 1, 100, 1500, 4096]);
    c.disable_migration = r.chance(1, 2);
    c.send_streams_blocked = r.chance(1, 2);
    c
}

/// smallest flow-control window that governs bytes flowing on a stream direction
fn governing_window(plan: &Plan, opener: Side, bidi: bool, sender: Side) -> u64 {
    let w = |x: u64, default: u64| if x == 0 { default } else { x };
    // the receiver's windows limit the sender
    match sender.peer() {
        Side::S2n => {
            let s = &plan.s2n;
            let conn = w(s.data_window, 1 << 20);
            let stream = if !bidi {
                w(s.uni_window, 1 << 20)
            } else if opener == Side::S2n {
                w(s.bidi_local_window, 1 << 20)
            } else {
                w(s.bidi_remote_window, 1 << 20)
            };
            conn.min(stream)
        }
        Side::Quiche => {
            let q = &plan.quiche;
            let stream = if !bidi {
                q.uni
            } else if opener == Side::Quiche {
                q.bidi_local
            } else {
                q.bidi_remote
            };
            q.initial_max_data.min(stream)
        }
    }
}

pub fn plan_for(seed: u64) -> Plan {
    let mut r = Rng::new(hashn(seed, &[0xc07]));
    let role = if r.chance(1, 2) { Role::S2nServer } else { Role::S2nClient };
    let small = r.chance(1, 3);
    let s2n = gen_s2n(&mut r, small);
    let quiche = gen_quiche(&mut r, small, role);
    let mut plan = Plan {
        seed,
        role,
        s2n,
        quiche,
        streams: vec![],
        close_by: if r.chance(1, 2) { Side::S2n } else { Side::Quiche },
        close_code: r.pick(&[0u64, 1, 7, 0x101, 0xffff, 0x3fff_ffff]),
        base_delay_us: r.pick(&[100u64, 1_000, 5_000, 10_000, 20_000, 50_000, 100_000]),
        jitter_us: 0,
        path_mtu: r.pick(&[1500u16, 1500, 1200, 1252, 1350, 1472, 1600]),
        faults: vec![],
        faults_end_us: 0,
        data_key: r.next(),
        delay_key: r.next(),
        rand_key: r.next(),
        time_cap_us: 0,
        allow_oversize_to_s2n: false,
    };
    if r.chance(1, 2) {
        plan.jitter_us = r.pick(&[10u64, 500, 5_000, 30_000]).min(plan.base_delay_us * 2);
    }
    normalise(&mut plan);

    // streams
    let n = match r.below(10) {
        0 => 0,
        1..=4 => r.range(1, 2),
        5..=7 => r.range(2, 5),
        _ => r.range(4, 10),
    };
    let rtt_us = 2 * plan.base_delay_us + plan.jitter_us + 1000;
    let mut budget: u64 = 3 << 20; // total bytes per plan
    for _ in 0..n {
        let opener = if r.chance(1, 2) { Side::S2n } else { Side::Quiche };
        let bidi = r.chance(3, 5);
        let mut size = |r: &mut Rng, sender: Side, plan: &Plan| -> u64 {
            let s = match r.below(12) {
                0 => 0,
                1 => r.range(1, 20),
                2..=6 => r.size(1, 20_000),
                7..=9 => r.size(1000, 200_000),
                _ => r.size(100_000, 1 << 20),
            };
            // bound the number of flow-control round trips: <= 60 s of virtual time and <= 1500
            // round trips
            let w = governing_window(plan, opener, bidi, sender).max(1);
            let max_rtts = (60_000_000 / rtt_us).clamp(20, 1500);
            let s = s.min(w.saturating_mul(max_rtts) / 2).min(budget);
            budget -= s;
            s
        };
        let fwd = size(&mut r, opener, &plan);
        let rev = if bidi { size(&mut r, opener.peer(), &plan) } else { 0 };
        let chunk = match r.below(6) {
            0 => r.range(1, 100) as u32,
            1 | 2 => r.range(500, 5000) as u32,
            3 => r.pick(&[4095u32, 4096, 4097, 1200, 1199, 65535, 65536]),
            _ => r.range(1000, 70_000) as u32,
        };
        // tiny chunks for large totals: bound the number of calls
        let chunk = chunk.max((fwd.max(rev) / 3000) as u32 + 1);
        let open_delay_us = if r.chance(1, 4) { r.pick(&[1u64, 1_000, 50_000, 300_000]) } else { 0 };
        plan.streams.push(StreamPlan { opener, bidi, fwd, rev, chunk, open_delay_us });
    }
    // tiny quiche send chunks for large totals: bound the number of calls
    let maxlen = plan.streams.iter().map(|s| s.fwd.max(s.rev)).max().unwrap_or(0);
    plan.quiche.send_chunk = plan.quiche.send_chunk.max((maxlen / 3000) as u32 + 1);
    plan.quiche.read_buf = plan.quiche.read_buf.max((maxlen / 3000) as u32 + 1);

    // faults
    let rate = r.pick(&[0u32, 0, 5, 20, 50, 150]);
    let horizon_us = r.pick(&[200_000u64, 1_000_000, 3_000_000, 8_000_000]).max(10 * rtt_us);
    let mut faults = vec![];
    let act = |r: &mut Rng, rtt_us: u64| -> Action {
        match r.below(6) {
            0 | 1 | 2 => Action::Drop,
            3 => Action::Dup { extra_us: r.pick(&[0u64, 10, 1_000, 50_000]) },
            _ => Action::Delay { us: r.pick(&[100u64, 2_000, 30_000, 200_000]).min(rtt_us * 4) },
        }
    };
    if rate > 0 {
        for _ in 0..r.range(1, 3) {
            let dir = match r.below(3) {
                0 => Some(Dir::C2S),
                1 => Some(Dir::S2C),
                _ => None,
            };
            let from = r.below(horizon_us / 2);
            let to = r.range(from + 1, horizon_us);
            faults.push(Fault {
                when: When::Window { dir, from_us: from, to_us: to, permille: rate, key: r.next() },
                action: act(&mut r, rtt_us),
            });
        }
    }
    // targeted: individual early datagrams (handshake flights) and a few later ones
    if r.chance(1, 2) {
        for _ in 0..r.range(1, 6) {
            let dir = if r.chance(1, 2) { Dir::C2S } else { Dir::S2C };
            let n = if r.chance(1, 2) { r.below(8) } else { r.size(1, 600) };
            faults.push(Fault { when: When::Nth { dir, n }, action: act(&mut r, rtt_us) });
        }
    }
    // short blackholes
    if r.chance(1, 5) {
        let dir = match r.below(3) {
            0 => Some(Dir::C2S),
            1 => Some(Dir::S2C),
            _ => None,
        };
        let from = r.below(horizon_us);
        let len = r.pick(&[rtt_us, 3 * rtt_us, 200_000, 1_000_000, 3_000_000]);
        faults.push(Fault {
            when: When::Window { dir, from_us: from, to_us: from + len, permille: 1000, key: r.next() },
            action: Action::Drop,
        });
    }
    // temporary path-MTU reduction
    if r.chance(1, 6) {
        let from = r.below(horizon_us);
        let len = r.pick(&[200_000u64, 1_000_000, 3_000_000]);
        faults.push(Fault {
            when: When::Window { dir: None, from_us: from, to_us: from + len, permille: 1000, key: r.next() },
            action: Action::MtuDrop { limit: r.pick(&[1200u16, 1252, 1300]) },
        });
    }
    plan.faults = faults;
    finish(&mut plan);
    plan
}

/// keeps the configuration honest: nothing in here is a fault, it only removes combinations in
/// which the *configuration* (not an implementation) promises something the path cannot do
pub fn normalise(plan: &mut Plan) {
    let path = plan.path_mtu.max(1200);
    plan.path_mtu = path;
    let s = &mut plan.s2n;
    // s2n MTUs are IP-level: payload = mtu - 28
    let lim = path.saturating_add(28).max(1228);
    s.max_mtu = s.max_mtu.max(1228);
    s.base_mtu = s.base_mtu.clamp(1228, lim.min(s.max_mtu));
    s.initial_mtu = s.initial_mtu.clamp(s.base_mtu, lim.min(s.max_mtu));
    let q = &mut plan.quiche;
    q.max_recv_udp = q.max_recv_udp.max(1200);
    q.max_send_udp = q.max_send_udp.max(1200);
    // quiche without PMTU discovery sends datagrams of max_send_udp from the start: the
    // configured value must fit the path, exactly as an operator would have to configure it
    if !q.discover_pmtu {
        q.max_send_udp = q.max_send_udp.min(path as u64);
    }
    // s2n-quic's receive buffers hold `max_mtu` bytes and it does not advertise
    // max_udp_payload_size (finding F-C07-1): an operator has to configure the peer's datagram
    // size by hand, exactly as for the path MTU
    if !plan.allow_oversize_to_s2n {
        q.max_send_udp = q.max_send_udp.min((s.max_mtu - 28) as u64);
    }
    q.max_stream_window = q.max_stream_window.max(q.bidi_local).max(q.bidi_remote).max(q.uni);
    q.max_connection_window = q.max_connection_window.max(q.initial_max_data);
    if plan.role == Role::S2nServer {
        q.retry = false;
        // RFC 9000 7.2: a client's first destination connection id is chosen by itself, a
        // zero-length *source* id is fine
    } else {
        s.retry = false;
    }
    // one connection-id length per endpoint (the demultiplexer parses short headers with it);
    // a Retry needs a non-empty id to swap in
    if q.retry && q.cid_len < 8 {
        q.cid_len = 8;
    }
    if q.cid_len == 0 {
        q.issue_cids = false;
    }
}

/// derived fields: end of the fault window and the virtual-time cap
pub fn finish(plan: &mut Plan) {
    normalise(plan);
    let mut end = 0u64;
    for f in &plan.faults {
        if let When::Window { to_us, .. } = &f.when {
            end = end.max(*to_us);
        }
    }
    // Nth faults have no time bound of their own: they are only honoured before this instant
    let has_nth = plan.faults.iter().any(|f| matches!(f.when, When::Nth { .. }));
    if has_nth {
        end = end.max(20_000_000);
    }
    plan.faults_end_us = end;
    let idle = plan.s2n.idle_timeout_ms.max(plan.quiche.idle_timeout_ms) * 1000;
    // generous: three times (fault window + longest idle timeout) plus ten minutes
    plan.time_cap_us = 3 * (end + idle) + 600_000_000;
}
